"""Flow family: closed-model checking of Flow.tla per instance, real runs of the same
instance, validation of the recorded traces against FlowTrace.tla (detailed acceptor) and
Monitor.tla (permissive property monitors), plus file-level comparison with Expected."""
import json, os, re, random, time
from vlib import *

FLOW_INVS = ["TypeOK", "C04_Once", "C04_Prefix", "C04_AtReturn", "C04_Tasks", "C05_NoEarly", "C06_Bound",
             "C08_Order", "C09_FailStops", "C09_NoSilent", "C02_NoReexec", "C16_Closure", "C17_NoFile", "C17_NoFifoLeft", "C17_Rendezvous", "C18_Whole"]
MON_INVS = ["M_C04_Once", "M_C04_OnlyExpected", "M_C04_AtReturn", "M_C05_NoEarly", "M_C05_NoLateWork", "M_C06_Bound", "M_C08_Order", "M_C08_PerUpstream",
            "M_C09_NotPublished", "M_C09_NoSilent", "M_C09_EndStatus", "M_C02_NoReexec", "M_C16_Closure"]

def prop_of_invariant(name):
    m = re.match(r"(?:M_)?(C\d\d)_", name or "")
    return m.group(1) if m else None

def flow_cfg(closed=True, liveness=True, invs=None, weak=None):
    invs = invs or FLOW_INVS
    s = "CONSTANT Closed = %s\n" % ("TRUE" if closed else "FALSE")
    s += "CONSTANT Weak = {%s}\n" % ",".join('"%s"' % w for w in (weak or []))
    s += "SPECIFICATION Spec\nINVARIANTS " + " ".join(invs) + "\n"
    if liveness:
        s += "PROPERTY C05_Live\n"
    return s

def trace_cfg(invs=None, weak=None):
    return ("CONSTANT Closed = FALSE\nCONSTANT Weak = {%s}\nSPECIFICATION TraceSpec\nCONSTRAINT HW\n"
            "POSTCONDITION Accepted\nCHECK_DEADLOCK FALSE\nINVARIANTS %s\n"
            % (",".join('"%s"' % w for w in (weak or [])), " ".join(invs or FLOW_INVS)))

def parse_expected(out):
    m = re.search(r'"EXPECTED (.*)"$', out, re.M)
    if not m:
        return None
    return json.loads(json.loads('"' + m.group(1) + '"'))

_exp_cache = {}
def expected(inst):
    """Expected(G) as evaluated by TLC from Flow.tla on the same wfspec JSON."""
    key = inst_json(inst)
    if key in _exp_cache:
        return _exp_cache[key]
    cfg = "CONSTANT Closed = TRUE\nCONSTANT Weak = {}\nINIT Init\nNEXT Next\nCONSTRAINT NoStates\n"
    r = run_tlc("Flow", "exp.cfg", files={"inst.json": key}, workers=1, cfgtext=cfg, timeout=120)
    exp = parse_expected(r.out)
    if exp is None:
        raise Undecided("TLC could not evaluate Expected: " + (r.error or r.out[-800:]))
    _exp_cache[key] = exp
    return exp

def closed_model(inst, liveness=True, workers=4, timeout=900, weak=None, invs=None):
    r = run_tlc("Flow", "flow.cfg", files={"inst.json": inst_json(inst)}, workers=workers,
                cfgtext=flow_cfg(True, liveness, invs, weak), timeout=timeout, heap="6g")
    return r

# ----------------------------------------------------------------------------
def expected_content(fid, exp_by_out, content_of):
    """The text a correct run writes into output file fid (content = lineage)."""
    t = exp_by_out[fid]
    s = "BEGIN %s\n" % fid
    for i in t["ins"]:
        s += content_of(i)
    pnames = t["_pnames"]
    for k, v in zip(pnames, t["params"]):
        s += "P %s=%s\n" % (k, v)
    s += "END %s\n" % fid
    return s

def file_monitor(inst, exp, rr, pre_content=None):
    """Property-level comparison of the files a run left with Expected(G).
    Returns list of (property, message)."""
    out = []
    ninst = norm_inst(inst)
    pnames = {p["name"]: p["params"] for p in ninst["procs"]}
    exp_by_out = {}
    for t in exp["tasks"]:
        t = dict(t); t["_pnames"] = pnames[t["proc"]]
        for o in list(t["outs"]) + list(t.get("streams", [])):
            exp_by_out[o] = t
    snap = rr.snapshot
    ids = set(final_ids(snap))
    pre = set(ninst["pre"])
    split_n = ([int(p.get("arg") or 1) for p in ninst["procs"] if p["kind"] == "splitter"] or [1])[0]
    def content_of(i):
        p = "o/%s.txt" % i
        if p in snap: return snap[p].get("text") or ""
        m = re.match(r"(.+)\.txt\.split_(\d+)$", i)
        if m:      # part k of a split file: its k-th group of split_n lines
            lines, k = content_of(m.group(1)).splitlines(True), int(m.group(2))
            return "".join(lines[(k - 1) * split_n:k * split_n])
        if i in exp_by_out and i in exp_by_out[i].get("streams", []):
            return expected_content(i, exp_by_out, content_of)      # streamed through a FIFO: never on disk
        p = "in/%s.txt" % i
        return "SRC %s\n" % i
    faulty = any(k in ninst["faults"] for k in exp["execkeys"])
    if rr.completed and rr.rc == 0:
        want = pre | set(exp["files"]) | set(exp.get("catfiles", []))      # task outputs and the files components write themselves
        if exp["mergeinsensitive"] and ids != want:
            out.append(("C04", "file set differs from Expected: missing %s extra %s" % (sorted(want - ids)[:5], sorted(ids - want)[:5])))
        ec = exec_counts(rr.cmdlog)
        if any(v != 1 for v in ec.values()) or set(ec) != set(exp["execkeys"]):
            if exp["mergeinsensitive"] or any(v != 1 for v in ec.values()):
                out.append(("C04", "execution counts differ from Expected: %s vs %s" %
                            (dict(sorted(ec.items())[:8]), sorted(exp["execkeys"])[:8])))
        if tmpdirs(snap):
            out.append(("C05", "temp dirs left after return: %s" % tmpdirs(snap)[:3]))
        if rr.return_snapshot is not None:
            rs = {e["path"]: e for e in rr.return_snapshot}
            left = [p for p in rs if os.path.basename(p).startswith("_scipipe_tmp")]
            if left:
                out.append(("C05", "temp dirs present at the moment Run returned: %s" % left[:3]))
            if exp["mergeinsensitive"]:
                missing = [f for f in exp["files"] if "o/%s.txt" % f not in rs]
                if missing:
                    out.append(("C05", "Run returned before these outputs were finalized: %s" % missing[:5]))
        starts = [r for r in rr.cmdlog if r["tag"] == "S"]; ends = [r for r in rr.cmdlog if r["tag"] == "E"]
        if len(ends) < len(starts):
            out.append(("C05", "Run returned while %d command(s) had not finished" % (len(starts) - len(ends))))
    if rr.completed and faulty:
        out.append(("C09", "workflow reported completion although a task was made to fail"))
    if faulty and rr.rc == 0:
        out.append(("C09", "exit status 0 although a task was made to fail"))
    # contents: every non-pre-existing output at a final path is complete and computed from the right bytes
    for fid in sorted(ids - pre):
        p = "o/%s.txt" % fid
        txt = snap[p].get("text")
        if fid not in exp_by_out:
            continue
        want = expected_content(fid, exp_by_out, content_of)
        if txt != want:
            prop = "C01" if (txt is not None and not txt.endswith("END %s\n" % fid)) else "C04"
            out.append((prop, "content of %s is not the complete output of its task: %r" % (p, (txt or "")[:120])))
    # pre-existing files untouched
    for fid in sorted(pre):
        p = "o/%s.txt" % fid
        want = (pre_content or {}).get(fid, "USER %s\n" % fid)
        if p not in snap or snap[p].get("text") != want:
            out.append(("C02", "pre-existing output %s was modified or removed" % p))
    return out

# ----------------------------------------------------------------------------
def real_runs(inst, variants, pre_content=None, timeout=40):
    """variants: list of dicts(env=..., bufsize=..., ctl=...). Returns list of RealRun (dirs removed)."""
    def one(v):
        d = scratch("run")
        try:
            prepare_dir(inst, d, pre_content=pre_content, ctl=v.get("ctl"))
            rr = run_real(inst, d, env=v.get("env"), bufsize=v.get("bufsize"), timeout=v.get("timeout", timeout))
            rr.variant = v
            return rr
        finally:
            rmtree(d)
    return pmap(one, variants)

def validate_traces(inst, exp, rrs, weak=None):
    """Concatenate the normalised traces of rrs and validate against FlowTrace and Monitor."""
    rows, drows = [], []
    for rr in rrs:
        one = normalize_flow(rr.events, inst, end_record(rr))
        rows += one
        # the model stops at MainReturn: what other goroutines still log between run.return and
        # process exit is only seen by the monitors (M_C05_NoLateWork)
        seen_ret = False
        for r in one:
            if seen_ret and r["e"] != "end":
                continue
            drows.append(r)
            if r["e"] == "run.return":
                seen_ret = True
    files = {"inst.json": inst_json(inst), "trace.ndjson": ndjson(rows), "expected.json": json.dumps(exp)}
    mon = run_tlc("Monitor", "Monitor.cfg", files=files, workers=1, timeout=300)
    files["trace.ndjson"] = ndjson(drows)
    det = run_tlc("FlowTrace", "ft.cfg", files=files, workers=1, timeout=300, cfgtext=trace_cfg(weak=weak), depth_first=False)
    return det, mon, drows

def jitter_variants(rng, n, bufs=(1, 2, 3, 128), procs=(), fixed_ctl=False):
    """schedule diversity: hook jitter, buffer sizes, and per-process command durations
    (some processes slow, so that later tasks / other branches finish long before)"""
    vs = []
    for i in range(n):
        env = {}
        ctl = {}
        if i % 4 != 0:
            env["VERIF_JITTER"] = str(rng.randrange(1, 10**6))
            env["VERIF_JITTER_US"] = str(rng.choice([100, 300, 1000]))
        if procs and i % 2 == 1 and not fixed_ctl:
            for p in rng.sample(list(procs), max(1, len(procs) // 2)):
                ctl[p + ".sleep"] = rng.choice(["0.03", "0.08", "0.15"])
        vs.append(dict(env=env, bufsize=rng.choice(bufs), ctl=ctl))
    return vs

def judge_instance(chk, inst, exp, rrs, det, mon, own, pre_content=None, known=None, label=""):
    """Turn observations into verdicts for the property set `own`. known(prop, msg, inst, rr) -> finding id or None."""
    nviol = 0
    def report(prop, msg, rr=None, extra=None):
        nonlocal nviol
        if prop not in own:
            chk.notes.append("other-property %s: %s" % (prop, msg)); return
        fid = known(prop, msg, inst, rr) if known else None
        if fid:
            chk.known_finding(fid, msg[:160]); return
        nviol += 1
        chk.violation(msg, dict(instance=norm_inst(inst), label=label, detail=msg,
                                variant=getattr(rr, "variant", None), extra=extra,
                                trace_tail=[e for e in (rr.events[-40:] if rr else [])]))
    for rr in rrs:
        hang = rr.timeout or rr.deadlock
        if hang and not norm_inst(inst)["faults"]:
            how = "Go runtime: all goroutines are asleep" if rr.deadlock else "timeout"
            report("C05", "workflow did not return (%s) on instance %s bufsize=%s" % (how, inst["name"], rr.variant.get("bufsize")), rr)
            ran = exec_counts(rr.cmdlog)
            never = sorted(set(exp["execkeys"]) - set(ran))
            if never and exp["mergeinsensitive"]:
                report("C04", "complete input sets were never processed: the workflow stopped making progress (%s) with %d of %d tasks executed, e.g. missing %s (instance %s bufsize=%s)"
                       % (how, len(ran), len(exp["execkeys"]), never[:3], inst["name"], rr.variant.get("bufsize")), rr)
            continue
        if rr.panic:
            report("C04", "workflow program panicked: %s" % rr.stderr[-300:].replace("\n", " | "), rr)
            continue
        for prop, msg in file_monitor(inst, exp, rr, pre_content):
            report(prop, msg + " [instance %s]" % inst["name"], rr)
    for res, kind in ((mon, "monitor"), (det, "acceptor")):
        if res is None: continue
        if res.error:
            chk.undecided.append("%s TLC run failed on %s: %s" % (kind, inst["name"], res.error[-300:]))
        elif res.violated:
            prop = prop_of_invariant(res.violated)
            report(prop or "C04", "invariant %s violated on a trace recorded from the implementation (%s, instance %s)"
                   % (res.violated, kind, inst["name"]), rrs[0] if rrs else None, extra=res.out[-3000:])
        elif res.rejected and kind == "acceptor":
            print("DRIFT: detailed acceptor rejected a recorded trace of %s at line %d: %s"
                  % (inst["name"], res.rejected[0], res.rejected[1][:200]), flush=True)
            chk.notes.append("drift %s line %d" % (inst["name"], res.rejected[0]))
            chk.extra["drift"] = chk.extra.get("drift", 0) + 1
        elif res.rejected or not res.ok:
            chk.undecided.append("%s did not consume the trace of %s" % (kind, inst["name"]))
    return nviol
