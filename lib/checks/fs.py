"""C01, C02, C03, C09 (filesystem side), C11: TaskFS.tla closed model (crash anywhere, cleanup, deletion,
re-runs, failure modes, weakened variants) + histories on the real binary driven by crash hooks and
external kills, validated against TaskFSTrace.tla, snapshots compared with the predicted filesystem."""
import random, json, os, time
from vlib import *
import zoo, flowcheck as fc, fscheck as fs
from . import register
import findings

def FA(extra=True):
    i = dict(name="FA", max=1, bufsize=2,
             procs=[zoo.src("s", ["1"]), zoo.cmd("a", ["in"], ["o1", "o2"]), zoo.cmd("b", ["x"], ["out"])],
             edges=[zoo.E("s.out", "a.in"), zoo.E("a.o1", "b.x")])
    if extra: i["ctl"] = {"a.extra": "x_a_%k.log"}
    return i
def FB(mx=1):
    # max=1: filesystem-modifying windows of different tasks never overlap, so the snapshot after a
    # kill at a hook is exactly the state the specification predicts (FB(2) is judged by monitors only)
    return dict(name="FB", max=mx, bufsize=2, procs=[zoo.src("s", ["1", "2"]), zoo.cmd("a", ["in"], ["out"]), zoo.cmd("b", ["x"], ["out"])],
                edges=[zoo.E("s.out", "a.in"), zoo.E("a.out", "b.x")])
def FC():
    return dict(name="FC", max=1, bufsize=1, procs=[zoo.src("s", ["1"]), zoo.cmd("a", ["in"], ["out"])], edges=[zoo.E("s.out", "a.in")])
def FD():   # gofunc task in the chain
    return dict(name="FD", max=1, bufsize=2, procs=[zoo.src("s", ["1"]), zoo.cmd("a", ["in"], ["out"], kind="gofunc"), zoo.cmd("b", ["x"], ["out"])],
                edges=[zoo.E("s.out", "a.in"), zoo.E("a.out", "b.x")])
def FE(style="abs"):   # outputs declared with absolute / parent-relative paths (same place on disk: <workdir>/o/)
    i = FD(); i["name"] = "FE" + style
    i["mkdirs"] = ["o"]      # destination directory of absolute / ../ outputs has to exist (property C13)
    od = "$PWD/o/" if style == "abs" else "../$PWDNAME/o/"
    for p in i["procs"]:
        if p["kind"] != "src":
            p["kind"] = "cmd"; p["outdir"] = od
    return i
FAULTS = ["exit_before_write", "exit_after_partial", "exit_after_all", "sigkill_self", "skip_output"]

def partially_published(pr, exp, inst):
    """signature of F7: some but not all published files of a task are in place, the rest still in its temp dir"""
    for t in exp["tasks"]:
        sig = t["key"].split(":", 1)[1]
        pub = [o for o in t["outs"] if o in pr["final"]] + [x for x in fs.extras_of(inst, t["proc"], sig) if x in pr["extras"]]
        if pub and pr["tmpfiles"].get(t["key"]):
            return t["key"]
    return None

class FSRunner:
    def __init__(self, chk, own):
        self.chk = chk; self.own = own
    def closed(self, inst, maxruns=3, faults=None, weak=(), expect=None, env=("crash", "cleanup", "rerun", "delete")):
        exp = fc.expected(inst)
        r = fs.closed_fs(inst, exp, maxruns=maxruns, faults=faults, weak=weak, env=env)
        chk = self.chk
        if r.error:
            chk.undecided.append("TaskFS closed model %s: %s" % (inst["name"], r.error[-300:])); return
        chk.add_tlc(r); chk.evaluations += 1
        got = r.violated or ("deadlock" if r.deadlock else None)
        if weak:
            if not got: chk.undecided.append("weakened TaskFS model %s found no counter-example (vacuous invariant?)" % list(weak))
            else: chk.extra.setdefault("weak_variants_refuted", []).append("%s -> %s" % (",".join(weak), got))
        elif got:
            chk.undecided.append("TaskFS faithful model of %s faults=%s violates %s - must be reproduced on the binary before it counts" % (inst["name"], faults, got))
        else:
            chk.nontrivial.add("closed:%s:%s:%d" % (inst["name"], json.dumps(faults, sort_keys=True), maxruns))
            chk.sample(dict(kind="closed-model", instance=inst["name"], faults=faults, max_runs=maxruns, distinct_states=r.distinct))
    def histories(self, inst, hists, faults=None, judge=None):
        chk = self.chk
        exp = fc.expected(inst)
        for h in hists: h.exp = exp
        done = pmap(fs.run_history, hists, workers=12)
        acc = [h for h in done if getattr(h, "accept", True)]
        res = fs.validate_histories(inst, exp, acc, faults=faults) if acc else None
        chk.evaluations += sum(len(h.runs) for h in done)
        if res is not None:
            if res.error:
                chk.undecided.append("TaskFSTrace on %s: %s" % (inst["name"], res.error[-400:]))
            else:
                chk.add_tlc(res)
                if res.violated:
                    prop = fc.prop_of_invariant(res.violated)
                    msg = "invariant %s violated on a history recorded from the implementation (instance %s)" % (res.violated, inst["name"])
                    if prop in self.own: chk.violation(msg, dict(instance=norm_inst(inst), tlc=res.out[-3000:]))
                    else: chk.notes.append("other-property " + msg)
                elif res.rejected:
                    print("DRIFT: TaskFSTrace rejected a recorded history of %s at line %d: %s" % (inst["name"], res.rejected[0], res.rejected[1][:300]), flush=True)
                    chk.extra["drift"] = chk.extra.get("drift", 0) + 1
                elif res.ok:
                    chk.traces += len(acc)
        for h in done:
            for prop, msg in fs.file_monitors(h, exp):
                self.report(prop, msg, h)
            if judge:
                judge(h, exp)
            chk.nontrivial.add("hist:%s:%s" % (inst["name"], h.label))
        if done:
            h = done[0]
            chk.sample(dict(kind="history", instance=inst["name"], label=h.label, steps=[list(map(str, s)) for s in h.steps],
                            events=len(h.rows), snapshot_after_first_run=h.snaps[0] if h.snaps else None), limit=5)
        return done
    def report(self, prop, msg, h, known_id=None):
        chk = self.chk
        if prop not in self.own:
            chk.notes.append("other-property %s: %s" % (prop, msg)); return
        if known_id and findings.active(known_id):
            chk.known_finding(known_id, msg[:200]); return
        chk.violation(msg, dict(instance=norm_inst(h.inst), history=h.label, steps=[list(map(str, s)) for s in h.steps],
                                snapshots=h.snaps, trace_tail=h.rows[-40:]))

_ref_cache = {}
def reference_listing(inst):
    """files (path -> sha, audit files by presence only) an uninterrupted run of inst leaves under o/"""
    key = json.dumps(norm_inst(inst), sort_keys=True)
    if key not in _ref_cache:
        rr = fc.real_runs(inst, [dict(env={}, bufsize=inst.get("bufsize", 2), timeout=60)])[0]
        _ref_cache[key] = listing_of(rr.snapshot) if rr.completed and rr.rc == 0 else None
    return _ref_cache[key]
def listing_of(snap):
    out = {}
    for p, v in snap.items():
        if v.get("kind") != "file" or not p.startswith("o/"): continue
        out[p] = "present" if p.endswith(".audit.json") else v.get("sha")
    return out

def converge_judge(runner, inst, cleaned):
    """final run of a crash history: cleaned -> completes with Expected files, finalized tasks not re-executed;
    not cleaned -> exits non-zero when a scheduled task has leftovers and never executes that task"""
    def judge(h, exp):
        last, lastpr = h.runs[-1], h.snaps[-1]
        prev = h.snaps[-2] if len(h.snaps) > 1 else None
        f7 = None
        for pr in h.snaps[:-1]:
            f7 = f7 or partially_published(pr, exp, inst)
        expected_files = set(exp["files"]) | set(norm_inst(inst)["pre"])
        ran = set(exec_counts(last.cmdlog))
        if cleaned:
            ref = reference_listing(inst)
            if ref is not None and last.completed and last.rc == 0:
                got = listing_of(last.snapshot)
                if got != ref:
                    diff = sorted(set(ref) ^ set(got))[:5] or sorted(p for p in ref if got.get(p) != ref[p])[:5]
                    runner.report("C03", "after '%s' the files / contents differ from an uninterrupted run: %s" % (h.label, diff), h, known_id="F7" if f7 else None)
            if not (last.completed and last.rc == 0):
                runner.report("C03", "re-run after cleanup did not complete (rc=%s) in history %s%s" % (last.rc, h.label, " [task %s was killed inside its publication window]" % f7 if f7 else ""), h, known_id="F7" if f7 else None)
            elif set(lastpr["final"]) != expected_files or any(k != "complete" for f, k in lastpr["kind"].items() if f in exp["files"]):
                runner.report("C03", "re-run after cleanup completed but files differ from the uninterrupted result: missing %s extra %s (history %s)"
                              % (sorted(expected_files - set(lastpr["final"])), sorted(set(lastpr["final"]) - expected_files), h.label), h, known_id="F7" if f7 else None)
            else:
                # extras of executed tasks must be there too
                want_extras = set()
                for t in exp["tasks"]:
                    want_extras |= set(fs.extras_of(inst, t["proc"], t["key"].split(":", 1)[1]))
                if not want_extras <= set(lastpr["extras"]):
                    runner.report("C03", "re-run after cleanup lost extra files %s (history %s)" % (sorted(want_extras - set(lastpr["extras"])), h.label), h, known_id="F7" if f7 else None)
            if prev is not None:
                for t in exp["tasks"]:
                    if all(o in prev["final"] for o in t["outs"]) and t["key"] in ran:
                        runner.report("C03", "task %s was re-executed although its outputs had been finalized before the re-run (history %s)" % (t["key"], h.label), h)
                # content / inode of already finalized files unchanged
                for fid in prev["final"]:
                    p = "o/%s.txt" % fid
                    b, a = h.runs[-1].before.get(p), last.snapshot.get(p)
                    if b and a and (b["sha"] != a["sha"] or b["ino"] != a["ino"] or b["mtime_ns"] != a["mtime_ns"]):
                        runner.report("C02", "finalized output %s was modified by the re-run (history %s)" % (p, h.label), h)
        else:
            left = set(prev["tdirs"]) if prev else set()
            scheduled_left = [k for k in left]
            if scheduled_left:
                if last.rc == 0 or last.completed:
                    runner.report("C03", "re-run with leftover temp dirs of %s did not stop with a non-zero status (rc=%s, history %s)" % (scheduled_left, last.rc, h.label), h)
                adopted = [k for k in scheduled_left if k in ran]
                if adopted:
                    runner.report("C03", "re-run adopted the leftover temp dir of %s (command executed inside it, history %s)" % (adopted, h.label), h)
            for fid, k in lastpr["kind"].items():
                if k == "partial":
                    runner.report("C03", "re-run without cleanup finalized an incomplete file %s (history %s)" % (fid, h.label), h)
    return judge

SLOT_WINDOW = ("exec.acquired", "cmd.start", "cmd.end", "audit.write", "audit.done", "exec.ensure", "fin.", "exec.fin")
def in_slot_window(label):
    """with maxConcurrentTasks=1 the hooks between slot acquisition and release are mutually exclusive between
    tasks, so the directory after a kill there is exactly the predicted one; a kill at any other hook can
    catch another task between an operation and its log line (judged by the monitors only)"""
    return label.startswith(SLOT_WINDOW)

def crash_histories(inst, rng, n=None, depth2=0, cleaned=True):
    exp = fc.expected(inst)
    pts = fs.crash_points(inst, exp)
    if n is not None and len(pts) > n:
        pts = rng.sample(pts, n)
    hs = []
    for label, val in pts:
        steps = [("run", {"VERIF_CRASH": val})] + ([("cleanup",)] if cleaned else []) + [("run", None)]
        hs.append(fs.History(inst, steps, label=("crash %s, %s, re-run" % (label, "cleanup" if cleaned else "no cleanup"))))
        hs[-1].accept = in_slot_window(label) and inst.get("max", 1) == 1
    allpts = fs.crash_points(inst, exp)
    for k in range(depth2):
        (l1, v1), (l2, v2) = rng.choice(allpts), rng.choice(allpts)
        steps = [("run", {"VERIF_CRASH": v1}), ("cleanup",), ("run", {"VERIF_CRASH": v2}), ("cleanup",), ("run", None)]
        hs.append(fs.History(inst, steps, label="crash %s, cleanup, crash %s (during recovery), cleanup, re-run" % (l1, l2)))
        hs[-1].accept = in_slot_window(l1) and in_slot_window(l2) and inst.get("max", 1) == 1
    return hs

@register("C03")
def check_C03(tier):
    chk = Check("C03", tier, level="fault_enumeration" if False else "model_checking")
    chk.rule = ("TaskFS.tla: every crash instant x cleanup/no cleanup x re-run histories up to 3 runs (exhaustive on the small instances); real: one history per "
                "instrumented instant of every task (kill -9 of the process group inside the hook) with and without cleanup, depth-2 histories with a crash "
                "during recovery, validated against TaskFSTrace.tla incl. snapshot = predicted filesystem; non-trivial = distinct (instance, history)")
    chk.assumptions = ["known finding F7 (kill inside the publication window of a multi-file task) is excluded by its signature only",
                       "external random kills are judged by the file monitors only (state between two hooks is not predicted)"]
    rng = random.Random(seed() * 101 + 3)
    build("wfdriver")
    R = FSRunner(chk, {"C03"})
    for inst in ([FA(), FC()] + ([FB(), FD()] if tier == "thorough" else [])):
        R.closed(inst, maxruns=3)
    R.closed(FA(), weak=["NoTmpCheck"], expect="C03_NoAdopt")
    R.closed(FC(), weak=["NoSkipCheck"], expect="C02")
    thorough = tier == "thorough"
    for inst in [FA(), FB(), FE("abs")] + ([FC(), FD(), FE("parent")] if thorough else []):
        n = None if thorough else 26
        R.histories(inst, crash_histories(inst, rng, n=n, depth2=12 if thorough else 4, cleaned=True), judge=converge_judge(R, inst, True))
        hs = crash_histories(inst, rng, n=None if thorough else 14, cleaned=False)
        if inst["name"] == "FB":
            # a run that ends through Fail() while a sibling task is between two hooks leaves a state the
            # acceptor cannot predict exactly: these histories are judged by the monitors only
            for h in hs: h.accept = False
        R.histories(inst, hs, judge=converge_judge(R, inst, False))
    # a task whose declared output is a DIRECTORY with many files (published by one rename), consumed downstream
    dinst = dict(name="DIR", max=1, bufsize=2,
                 procs=[zoo.src("s", ["1"]),
                        dict(name="a", kind="cmd", ins=["in"], outs=["parts"], outpaths={"parts": "o/parts"},
                             arg="mkdir {o:parts} && for i in $(seq 1 150); do echo part$i > {o:parts}/p$i; done && cat {i:in} > /dev/null"),
                        dict(name="b", kind="cmd", ins=["x"], outs=["out"], outpaths={"out": "o/count.txt"}, arg="cat {i:x}/* | wc -l > {o:out}")],
                 edges=[zoo.E("s.out", "a.in"), zoo.E("a.parts", "b.x")])
    dh = []
    for spec in ["fin.rename.begin@o/parts#1", "fin.rename.done@o/parts#1", "fin.extra.done@o/parts/#1", "fin.extra.done@o/parts/#40", "fin.extra.begin@o/parts/#100", "fin.rmtmp.begin@_scipipe_tmp.a.#1", "cmd.end#1"]:
        h = fs.History(dinst, [("run", {"VERIF_CRASH": spec}), ("cleanup",), ("run", None)], label="directory output: crash %s, cleanup, re-run" % spec); h.accept = False
        dh.append(h)
    def dir_judge(h, exp):
        ref = reference_listing(dinst); last = h.runs[-1]
        if ref is None: chk.undecided.append("reference run of the directory-output workflow failed"); return
        if not last.completed or last.rc != 0:
            R.report("C03", "re-run after cleanup did not complete (history %s): %s" % (h.label, last.stderr[-160:]), h); return
        got = listing_of(last.snapshot)
        if got != ref:
            R.report("C03", "after '%s' the files / contents differ from an uninterrupted run: %d vs %d files, count.txt %r vs %r"
                     % (h.label, len(got), len(ref), (last.snapshot.get("o/count.txt") or {}).get("text"), "150\n"), h)
    R.histories(dinst, dh, judge=dir_judge)
    # generic convergence judge for instances outside the TaskFS naming scheme: after cleanup the re-run completes with the reference listing;
    # with leftovers still in place it stops with a non-zero exit status
    def listing_judge(inst0, cleaned):
        def judge(h, exp):
            last = h.runs[-1]
            if cleaned:
                ref = reference_listing(inst0)
                if ref is None: chk.undecided.append("reference run of %s failed" % inst0["name"]); return
                if last.timeout or last.deadlock or not last.completed or last.rc != 0:
                    R.report("C03", "re-run after cleanup did not complete (history %s): rc=%s %s" % (h.label, last.rc, last.stderr[-160:].replace("\n", " | ")), h); return
                got = listing_of(last.snapshot)
                if got != ref:
                    diff = sorted(k for k in set(got) | set(ref) if got.get(k) != ref.get(k))
                    R.report("C03", "after '%s' the files / contents differ from an uninterrupted run: %s" % (h.label, diff[:5]), h)
            else:
                if last.timeout or last.deadlock:
                    R.report("C03", "re-run with leftovers in place hangs (history %s)" % h.label, h)
                elif last.rc == 0 or last.completed:
                    R.report("C03", "re-run with leftovers still in place (history %s) exited with status %s, completed=%s: the leftover was adopted" % (h.label, last.rc, last.completed), h)
        return judge
    # streaming pair: FIFOs are leftovers like temp directories
    st = dict(name="STC", max=2, bufsize=2, procs=[zoo.src("s", ["1"]), dict(name="p", kind="cmd", ins=["in"], outs=["out"], streams=["out"]), zoo.cmd("c", ["in"], ["out"])],
              edges=[zoo.E("s.out", "p.in"), zoo.E("p.out", "c.in")])
    hs_clean, hs_left = [], []
    for spec in ["fifo.create#1", "task.spawn@p|#1", "exec.acquired@p|#1", "cmd.start@p|#1", "cmd.start@c|#1"]:
        h = fs.History(st, [("run", {"VERIF_CRASH": spec}), ("cleanup",), ("run", None)], label="streaming: crash %s, cleanup (temp dirs and FIFOs), re-run" % spec); h.accept = False
        hs_clean.append(h)
        h = fs.History(st, [("run", {"VERIF_CRASH": spec}), ("cleanup_tmp_only",), ("run", None)], label="streaming: crash %s, temp dirs removed but the FIFO left, re-run" % spec); h.accept = False
        hs_left.append(h)
    R.histories(st, hs_clean, judge=listing_judge(st, True))
    R.histories(st, hs_left, judge=listing_judge(st, False))
    # a file-writing component (Concatenator) between tasks: killed while it has written part of its output
    cc = dict(name="CCAT", max=1, bufsize=2,
              procs=[zoo.src("s", zoo.items(3)), zoo.cmd("a", ["in"]), dict(name="cc", kind="concat", arg="o/all.txt"),
                     dict(name="b", kind="cmd", ins=["x"], outs=["out"], outpaths={"out": "o/b_all.txt"}, arg="cat {i:x} > {o:out}")],
              edges=[zoo.E("s.out", "a.in"), zoo.E("a.out", "cc.in"), zoo.E("cc.out", "b.x")], ctl={"a.sleep": "0.3"})
    hs = []
    for t in (0.45, 0.75, 1.0):
        h = fs.History(cc, [("kill", t), ("cleanup",), ("run", None)], label="Concatenator killed after %.2f s (part of its output written), cleanup, re-run" % t); h.accept = False
        hs.append(h)
    for h in hs: h.exp = None          # the component is not a process kind of Flow.tla: judged by the listing only
    jd = listing_judge(cc, True)
    for h in pmap(fs.run_history, hs, workers=3):
        chk.evaluations += len(h.runs)
        jd(h, None)
        chk.nontrivial.add("hist:CCAT:" + h.label)
    # crash during recovery, then a re-run WITHOUT cleanup: first run killed right after the audit files were written (they stay at the
    # final location), temp dirs removed, recovery run killed while the command has written part of its output, started again: it must
    # stop with a non-zero status and whatever it leaves at a final path must be complete
    rec = FC(); rec["name"] = "FCREC"; rec["ctl"] = {"a.sleep": "0.7"}; rec["mkdirs"] = ["o"]
    hs = []
    for spec in ("audit.done#1", "exec.ensure#1", "fin.rename.begin#1"):
        h = fs.History(rec, [("run", {"VERIF_CRASH": spec}), ("cleanup",), ("kill", 0.35), ("run", None)],
                       label="crash %s, cleanup, recovery run killed after a partial write, run again without cleanup" % spec); h.accept = False
        hs.append(h)
    def rec_judge(h, exp):
        last, pr = h.runs[-1], h.snaps[-1]
        if last.timeout or last.deadlock:
            R.report("C03", "re-run with leftovers in place hangs (history %s)" % h.label, h)
        elif last.rc == 0 or last.completed:
            R.report("C03", "re-run with a leftover temp dir in place exited with status %s, completed=%s (history %s)" % (last.rc, last.completed, h.label), h)
        bad = [f for f, k in pr["kind"].items() if k == "partial"]
        if bad:
            R.report("C03", "the re-run that stopped on leftovers finalized an incomplete file before stopping: %s (history %s)" % (bad, h.label), h)
    R.histories(rec, hs, judge=rec_judge)
    # a task WITHOUT outputs (the leaf / driver process) killed while it executes: its temp dir is a leftover like any other
    leaf = zoo.Z16(n=1, mx=1); leaf["name"] = "Z16L"; leaf["ctl"] = {"leaf.extra": "report_%k.log"}
    hs = []
    for spec in ("cmd.start@leaf|#1", "exec.acquired@leaf|#1"):
        h = fs.History(leaf, [("run", {"VERIF_CRASH": spec}), ("run", None)], label="crash %s (task without outputs), run again without cleanup" % spec); h.accept = False; h.exp = None
        hs.append(h)
    for h in pmap(fs.run_history, hs, workers=2):
        chk.evaluations += len(h.runs)
        last = h.runs[-1]
        had = any(p.startswith("_scipipe_tmp.leaf") for p in h.runs[0].snapshot)
        if had and (last.rc == 0 or last.completed):
            R.report("C03", "re-run with the leftover temp dir of a task without outputs in place exited with status %s, completed=%s (history %s)" % (last.rc, last.completed, h.label), h)
        elif had: chk.nontrivial.add("hist:Z16L:" + h.label)
    # finalized outputs that are EMPTY files (published by rename like any other): after crash and cleanup their tasks are not executed again
    emp = dict(name="EMPTYOUT", max=1, bufsize=2,
               procs=[zoo.src("s", zoo.items(2)), dict(name="a", kind="cmd", ins=["in"], outs=["out"], arg="test -e {i:in} && : > {o:out}"),
                      dict(name="b", kind="cmd", ins=["x"], outs=["out"], arg="sleep 0.4; cat {i:x} > {o:out}; echo done >> {o:out}")],
               edges=[zoo.E("s.out", "a.in"), zoo.E("a.out", "b.x")])
    hs = []
    for spec in ("cmd.start@b|#1", "cmd.end@b|#1", "cmd.start@b|#2"):
        h = fs.History(emp, [("run", {"VERIF_CRASH": spec}), ("cleanup",), ("run", None)], label="crash %s after tasks with empty outputs were finalized, cleanup, re-run" % spec); h.accept = False; h.exp = None
        hs.append(h)
    for h in pmap(fs.run_history, hs, workers=3):
        chk.evaluations += len(h.runs)
        first, last = h.runs[0], h.runs[-1]
        done = {ev["task"] for ev in first.events if ev["ev"] == "exec.fin"}
        again = sorted({ev["task"] for ev in last.events if ev["ev"] == "cmd.start"} & done)
        if last.timeout or last.deadlock or last.rc != 0 or not last.completed:
            R.report("C03", "re-run after cleanup did not complete (history %s): rc=%s %s" % (h.label, last.rc, last.stderr[-160:].replace("\n", " | ")), h)
        elif again:
            R.report("C03", "tasks whose (empty) outputs had been finalized before the crash were executed again by the re-run: %s (history %s)" % (again[:3], h.label), h)
        elif done: chk.nontrivial.add("hist:EMPTYOUT:" + h.label)
    # random external kills while slow commands run
    inst = FB(); inst["ctl"] = {"ALL.sleep": "0.15"}
    hs = []
    for k in range(24 if thorough else 8):
        h = fs.History(inst, [("kill", round(rng.uniform(0.02, 0.7), 3)), ("cleanup",), ("run", None)], label="external kill #%d, cleanup, re-run" % k)
        h.accept = False
        hs.append(h)
    R.histories(inst, hs, judge=converge_judge(R, inst, True))
    return chk.finish()

# =============================================================================================
def single_crash_histories(inst, n=None, rng=None):
    exp = fc.expected(inst)
    pts = fs.crash_points(inst, exp)
    if n is not None and len(pts) > n:
        pts = rng.sample(pts, n)
    hs = [fs.History(inst, [("run", {"VERIF_CRASH": v})], label="kill at %s" % l) for l, v in pts]
    for h, (l, v) in zip(hs, pts):
        h.accept = in_slot_window(l) and inst.get("max", 1) == 1
    return hs

def fault_judge(runner, inst, key, kind):
    def judge(h, exp):
        rr, pr = h.runs[0], h.snaps[0]
        t = [x for x in exp["tasks"] if x["key"] == key][0]
        if rr.timeout or rr.deadlock:
            runner.report("C09", "workflow hangs instead of exiting when task %s fails (%s)" % (key, kind), h); return
        if rr.rc == 0 or rr.completed:
            runner.report("C09", "task %s was made to fail (%s) but the workflow exited with status %s / reported completion=%s" % (key, kind, rr.rc, rr.completed), h)
        pub = [o for o in t["outs"] if o in pr["final"]]
        if pub:
            runner.report("C09", "outputs %s of the failing task %s (%s) appeared at their final paths" % (pub, key, kind), h)
            runner.report("C01", "a file of a failed command (%s, task %s) exists at final path(s) %s" % (kind, key, pub), h)
        ran = set(exec_counts(rr.cmdlog))
        dependants = [d["key"] for d in exp["tasks"] if set(d["ins"]) & set(t["outs"])]
        bad = [d for d in dependants if d in ran]
        if bad:
            runner.report("C09", "tasks %s executed although they depend on outputs of the failing task %s" % (bad, key), h)
    return judge

def fault_histories(inst, kinds, keys=None):
    exp = fc.expected(inst)
    out = []
    for t in exp["tasks"]:
        if keys and t["key"] not in keys: continue
        for kind in kinds:
            if kind in ("skip_output", "dangling_link") and not t["outs"]: continue
            pk = [p for p in inst["procs"] if p["name"] == t["proc"]][0]["kind"]
            if pk == "gofunc" and kind not in ("exit_before_write", "exit_after_partial", "exit_after_all", "skip_output", "panic_after_partial"): continue
            if pk != "gofunc" and kind == "panic_after_partial": continue
            i2 = dict(inst); i2["faults"] = {t["key"]: kind}
            # a multi-output task that omits one output: the rename order is random, so repeat
            reps = 4 if (kind in ("skip_output", "dangling_link") and len(t["outs"]) > 1) else 1
            for r in range(reps):
                out.append((i2, t["key"], kind, fs.History(i2, [("run", None)], label="task %s fails: %s" % (t["key"], kind))))
    return out

# (no SIGINT kind: a check started as a background job of a non-interactive shell inherits SIGINT = ignored, the signal would do nothing)
ALLFAULTS = ["exit_before_write", "exit_after_partial", "exit_after_all", "sigkill_self", "sigterm_self", "sigkill_shell", "skip_output", "dangling_link", "panic_after_partial"]

def run_fault_cases(R, insts, kinds, chk):
    cases = []
    for inst in insts:
        cases += fault_histories(inst, kinds)
    # group by (instance name, fault) -> each has its own fs.json (faults differ): validate one by one, in parallel
    def one(c):
        i2, key, kind, h = c
        exp = fc.expected({k: v for k, v in i2.items() if k != "faults"})
        h.exp = exp
        fs.run_history(h)
        res = None
        parallel = len([t for t in exp["tasks"] if not any(set(t["ins"]) & set(u["outs"]) for u in exp["tasks"])]) > 1 and i2.get("max", 1) > 1
        if not parallel and kind not in ("sigkill_shell", "dangling_link", "panic_after_partial"):      # (a dangling link is in the temp-dir listing, the model has no such file)
            res = fs.validate_histories(i2, exp, [h], faults=i2["faults"])
        return c, exp, res
    for (i2, key, kind, h), exp, res in pmap(one, cases, workers=12):
        chk.evaluations += 1
        chk.nontrivial.add("fault:%s:%s:%s" % (i2["name"], key, kind))
        fault_judge(R, i2, key, kind)(h, exp)
        for prop, msg in fs.file_monitors(h, exp):
            R.report(prop, msg, h)
        if res is not None:
            if res.error: chk.undecided.append("TaskFSTrace (fault %s on %s): %s" % (kind, key, res.error[-300:]))
            else:
                chk.add_tlc(res)
                if res.violated:
                    prop = fc.prop_of_invariant(res.violated)
                    msg = "invariant %s violated on the recorded run in which %s fails (%s), instance %s" % (res.violated, key, kind, i2["name"])
                    if prop in R.own: chk.violation(msg, dict(instance=norm_inst(i2), tlc=res.out[-2500:]))
                elif res.rejected:
                    print("DRIFT: TaskFSTrace rejected the failing run (%s, %s, %s) at line %d: %s" % (i2["name"], key, kind, res.rejected[0], res.rejected[1][:200]), flush=True)
                    chk.extra["drift"] = chk.extra.get("drift", 0) + 1
                else:
                    chk.traces += 1
    if cases:
        c = cases[0]
        chk.sample(dict(kind="fault-run", instance=c[0]["name"], failing_task=c[1], failure=c[2]))

@register("C01")
def check_C01(tier):
    chk = Check("C01", tier)
    chk.rule = ("TaskFS.tla at rename/audit/extra-file grain: every crash instant x every failure mode (exhaustive, small instances); real: kill -9 at every "
                "instrumented instant of every task, every failure mode on every task (incl. bash itself killed, declared output not produced, Go-function "
                "tasks, absolute and ../ output paths), random external kills during slow partial writes; snapshots validated against TaskFSTrace.tla and "
                "checked for incomplete content at final paths; non-trivial = distinct (instance, instant | failure mode | kill time)")
    chk.assumptions = ["commands end every output with an END line, so partial and complete content are distinguishable without the model",
                       "Go-function tasks write through filepath.Join(task.TempDir(), ip.TempPath()) (FileIP.Write is the known finding F11)"]
    thorough = tier == "thorough"
    rng = random.Random(seed() * 13 + 1)
    build("wfdriver")
    R = FSRunner(chk, {"C01"})
    for inst in [FA(), FC()]:
        for kind in (ALLFAULTS if thorough else ["exit_after_partial", "exit_after_all", "skip_output"]):
            key = "a:1"
            R.closed(inst, maxruns=2, faults={key: kind}, env=("crash", "cleanup", "rerun"))
        R.closed(inst, maxruns=2, env=("crash", "cleanup", "rerun"))
    R.closed(FC(), maxruns=2, weak=["WriteFinalDirect"])
    R.closed(FC(), maxruns=2, weak=["IgnoreCmdError"], faults={"a:1": "exit_after_all"})
    R.closed(FA(), maxruns=2, weak=["NoEnsureOutputs"], faults={"a:1": "skip_output"})
    for inst in [FA(), FB(), FE("abs")] + ([FD(), FE("parent"), FC()] if thorough else []):
        R.histories(inst, single_crash_histories(inst, n=None if thorough else 24, rng=rng))
    run_fault_cases(R, [FA(), FB(2), FD(), FE("abs")] + ([FE("parent"), FC()] if thorough else []), ALLFAULTS, chk)
    # external kills while a command has written part of its output and sleeps
    inst = FB(2); inst["ctl"] = {"ALL.sleep": "0.2"}
    hs = []
    for k in range(30 if thorough else 10):
        h = fs.History(inst, [("kill", round(rng.uniform(0.05, 0.9), 3))], label="external kill #%d" % k); h.accept = False
        hs.append(h)
    R.histories(inst, hs)
    # a command that APPENDS to its output: killed after a partial write, then the workflow is started again without any cleaning.
    # Whatever reaches the final path must be the output of ONE successful command (the stale temp dir must not be built upon)
    inst = FC(); inst["name"] = "FCAPP"; inst["ctl"] = {"a.append": "1", "a.sleep": "0.6"}
    hs = []
    for k, t in enumerate((0.3, 0.4)):
        h = fs.History(inst, [("kill", t), ("run", None)], label="appending command killed after a partial write (%.1f s), run again without cleaning" % t); h.accept = False
        hs.append(h)
    R.histories(inst, hs)
    # the same without appending, the output directory exists already (as in any working directory that has been used before)
    inst = FC(); inst["name"] = "FCPART"; inst["ctl"] = {"a.sleep": "0.6"}; inst["mkdirs"] = ["o"]
    hs = []
    for t in (0.3, 0.45):
        h = fs.History(inst, [("kill", t), ("run", None)], label="command killed after a partial write (%.2f s), output directory exists, run again without cleaning" % t); h.accept = False
        hs.append(h)
    R.histories(inst, hs)
    # a task whose declared output is a DIRECTORY with many files: killed while it is being published, the directory is either absent or whole
    dinst = dict(name="DIR1", max=1, bufsize=2,
                 procs=[zoo.src("s", ["1"]),
                        dict(name="a", kind="cmd", ins=["in"], outs=["parts"], outpaths={"parts": "o/parts"},
                             arg="mkdir {o:parts} && for i in $(seq 1 150); do echo part$i > {o:parts}/p$i; done && cat {i:in} > /dev/null")],
                 edges=[zoo.E("s.out", "a.in")])
    for spec in ["fin.rename.begin@o/parts#1", "fin.rename.done@o/parts#1", "fin.extra.done@o/parts/#1", "fin.extra.done@o/parts/#40", "fin.extra.begin@o/parts/#100", "fin.rmtmp.begin@_scipipe_tmp.a.#1"]:
        d = scratch("dir1")
        try:
            prepare_dir(dinst, d)
            rr = run_real(dinst, d, env={"VERIF_CRASH": spec}, timeout=40); chk.evaluations += 1
            pd = os.path.join(d, "o", "parts")
            nfiles = len(os.listdir(pd)) if os.path.isdir(pd) else None
            if nfiles is not None and nfiles != 150:
                chk.violation("directory output: after a kill at %s the declared output path o/parts holds %d of 150 files" % (spec, nfiles), dict(instance=dinst, crash=spec))
            else:
                chk.nontrivial.add("dir-output:%s:%s" % (spec, nfiles))
        finally:
            rmtree(d)
    # a command whose shell exits while a background job it started is still writing the output (through an inherited descriptor):
    # the task is over when every process of the command has finished, not when the top-level shell returns
    bg = dict(name="BGW", max=1, bufsize=2,
              procs=[zoo.src("s", ["1"]),
                     dict(name="a", kind="cmd", ins=["in"], outs=["out"],
                          arg="exec 3> {o:out}; echo 'BEGIN a.out_1' >&3; cat {i:in} >&3; ( sleep 0.7; echo 'END a.out_1' >&3 ) & true")],
              edges=[zoo.E("s.out", "a.in")])
    d = scratch("bgw")
    try:
        prepare_dir(bg, d)
        obs = fs.run_real_watch(bg, d, [os.path.join(d, "o/a.out_1.txt")], timeout=40); chk.evaluations += 1
        for w, o in list(obs["first_sight"].items()) + list(obs["at_exit"].items()):
            if not o["complete"]:
                chk.violation("command with a background writer: an incomplete file (%d bytes) was observed at the final path %s %s" % (o["size"], os.path.basename(w),
                              "while part of the command was still running" if "t" in o else "after the workflow had exited with status %s" % obs["rc"]), dict(instance=bg, observation=obs)); break
        else:
            chk.nontrivial.add("background-writer")
    finally:
        rmtree(d)
    # the standard command as a non-final member of an AND-list: its failure must still fail the task
    andlist = [FA(), FB(2)]
    for i in andlist:
        i["name"] += "AND"
        for pr in i["procs"]:
            if pr["kind"] == "cmd": pr["suffix"] = "&& true"
    run_fault_cases(R, andlist, ["exit_after_partial", "exit_after_all"] if not thorough else ALLFAULTS, chk)
    # ---- watched runs: a final path is polled from outside; whatever is seen there must be complete --------------
    def watched(label, inst, watch_rel, other_fs=None):
        d = scratch("watch"); od = None
        try:
            if other_fs:
                od = os.path.join(other_fs, "verif_c01_" + os.path.basename(d))
                os.makedirs(os.path.join(od, "o"))
                for pr in inst["procs"]:
                    if pr["kind"] != "src": pr["outdir"] = od + "/o/"
                watch = [os.path.join(od, w) for w in watch_rel]
            else:
                watch = [os.path.join(d, w) for w in watch_rel]
            prepare_dir(inst, d)
            obs = fs.run_real_watch(inst, d, watch, timeout=90)
            chk.evaluations += 1
            for w, o in list(obs["first_sight"].items()) + list(obs["at_exit"].items()):
                if not o["complete"]:
                    chk.violation("%s: an incomplete file (%d bytes) was observed at the final path %s %s" % (label, o["size"], os.path.basename(w),
                                  "while the workflow was running" if "t" in o else "after the workflow had exited with status %s" % obs["rc"]),
                                  dict(instance=inst, observation=obs)); break
            else:
                chk.nontrivial.add("watched:" + label)
            return obs
        finally:
            rmtree(d)
            if od: rmtree(od)
    # (a) a large output (slow to copy, instant to rename) on the same file system
    big = FC(); big["ctl"] = {"a.pad": str(80 * 1024 * 1024)}
    watched("80 MB output, same file system", big, ["o/a.out_1.txt"])
    # (b) declared output on ANOTHER file system than the working directory (rename cannot be used; nothing may appear half-copied)
    try:
        other = "/dev/shm" if os.path.isdir("/dev/shm") and os.stat("/dev/shm").st_dev != os.stat(os.environ.get("VERIF_SCRATCH", "/tmp")).st_dev else None
    except OSError:
        other = None
    if other:
        big2 = FC(); big2["ctl"] = {"a.pad": str(150 * 1024 * 1024)}
        watched("150 MB output declared on another file system", big2, ["o/a.out_1.txt"], other_fs=other)
    else:
        chk.notes.append("no second file system available: cross-device scenario skipped")
    # (c) two concurrent tasks whose inputs have the same base name in different directories
    twin = dict(name="TW", max=2, bufsize=2,
                procs=[dict(name="s", kind="src", paths=["da/x.txt", "db/x.txt"]),
                       dict(name="a", kind="cmd", ins=["in"], outs=["out"], outpaths={"out": "o/{i:in|dirname}.res.txt"})],
                edges=[zoo.E("s.out", "a.in")], mkdirs=["da", "db"], ctl={"a:x@da.sleep": "0.1", "a:x@db.sleep": "0.8"})
    # the same with a 2-core blocker that may hold both slots while the twins are created (both pass the leftover check before either creates its temp dir)
    twinb = dict(twin, name="TWB", procs=twin["procs"] + [zoo.src("h", ["hold"]), zoo.cmd("hold", ["in"], ["out"], cores=2)],
                 edges=twin["edges"] + [zoo.E("h.out", "hold.in")], ctl=dict(twin["ctl"], **{"hold.sleep": "0.5"}))
    def twin_run(k):
        d = scratch("twin")
        inst = twinb if k % 3 == 2 else twin
        try:
            prepare_dir(inst, d)
            for sub in ("da", "db"):
                open(os.path.join(d, sub, "x.txt"), "w").write("SRC %s\n" % sub)
            return fs.run_real_watch(inst, d, [os.path.join(d, "o/da.res.txt"), os.path.join(d, "o/db.res.txt")], env={"VERIF_JITTER": str(k)} if k % 2 else {}, timeout=30)
        finally:
            rmtree(d)
    for obs in pmap(twin_run, range(12 if thorough else 6), workers=3):
        chk.evaluations += 1
        bad = [(w, o) for w, o in list(obs["first_sight"].items()) + list(obs["at_exit"].items()) if not o["complete"]]
        if bad:
            chk.violation("two concurrent tasks with equally named inputs in different directories: incomplete file at final path %s (%d bytes)" % (os.path.basename(bad[0][0]), bad[0][1]["size"]),
                          dict(instance=twin, observation=obs))
        elif obs["rc"] != 0:
            chk.notes.append("twin-input workflow failed rc=%s: %s" % (obs["rc"], obs["stderr"][-120:]))
        else:
            chk.nontrivial.add("twin-inputs")
    # (d) two PROCESSES whose names differ only in letter case / punctuation read the same file at the same time, one fast, one slow
    # (both tasks are created while a 2-core blocker holds both slots, so both pass the leftover check before either creates its temp dir)
    tw2 = dict(name="TW2", max=2, bufsize=2,
               procs=[zoo.src("s", ["1"]), zoo.src("h", ["hold"]), zoo.cmd("hold", ["in"], ["out"], cores=2),
                      dict(name="Conv", kind="cmd", ins=["in"], outs=["out"], outpaths={"out": "o/fast.res.txt"}),
                      dict(name="conv", kind="cmd", ins=["in"], outs=["out"], outpaths={"out": "o/slow.res.txt"})],
               edges=[zoo.E("h.out", "hold.in"), zoo.E("s.out", "Conv.in"), zoo.E("s.out", "conv.in")],
               ctl={"hold.sleep": "0.5", "Conv.sleep": "0.1", "conv.sleep": "0.9"})
    def tw2_run(k):
        d = scratch("tw2")
        try:
            prepare_dir(tw2, d)
            return fs.run_real_watch(tw2, d, [os.path.join(d, "o/fast.res.txt"), os.path.join(d, "o/slow.res.txt")], env={"VERIF_JITTER": str(k)} if k else {}, timeout=30)
        finally:
            rmtree(d)
    for obs in pmap(tw2_run, range(4 if thorough else 2), workers=2):
        chk.evaluations += 1
        bad = [(w, o) for w, o in list(obs["first_sight"].items()) + list(obs["at_exit"].items()) if not o["complete"]]
        if bad:
            chk.violation("two processes named Conv / conv reading the same file concurrently: incomplete file at final path %s (%d bytes)" % (os.path.basename(bad[0][0]), bad[0][1]["size"]),
                          dict(instance=tw2, observation=obs))
        elif obs["rc"] != 0:
            chk.notes.append("Conv/conv workflow failed rc=%s: %s" % (obs["rc"], obs["stderr"][-120:]))
        else:
            chk.nontrivial.add("case-twin processes")
    # Go-function task written the documented way (task.OutIP(port).Write(data), examples/custom_execution_function)
    inst = dict(name="FW", max=1, bufsize=2, procs=[zoo.src("s", ["1"]), zoo.cmd("a", ["in"], ["out"], kind="gofunc_ipwrite")], edges=[zoo.E("s.out", "a.in")])
    rr = fc.real_runs(inst, [dict(env={}, bufsize=2, timeout=20)])[0]
    chk.evaluations += 1
    if (rr.rc != 0 or not rr.completed) and "o/a.out_1.txt" in rr.snapshot:
        msg = ("a Go-function task that writes through FileIP.Write leaves its file directly at the final path although the task failed "
               "(rc=%s: %s)" % (rr.rc, rr.stderr[-120:].replace("\n", " | ")))
        if findings.active("F11"): chk.known_finding("F11", msg)
        else: chk.violation(msg, dict(instance=inst))
    elif rr.rc == 0 and rr.completed:
        chk.nontrivial.add("ipwrite-works")
    return chk.finish()

@register("C09")
def check_C09(tier):
    chk = Check("C09", tier)
    chk.rule = ("Flow.tla / TaskFS.tla: every choice of failing task x failure kind leads to phase failed, never returned, outputs never final (C09_* invariants); "
                "real: the same choices on the binary while other tasks run (exit status, completion marker, final paths, dependants' own start lines), "
                "tasks that cannot be formed (missing parameter value, invalid output path), two tasks failing at the same time with a blocked log writer; "
                "non-trivial = distinct (instance, failing task, kind)")
    thorough = tier == "thorough"
    build("wfdriver")
    R = FSRunner(chk, {"C09"})
    # closed models: flow level (other tasks running concurrently) and filesystem level
    for name, kw, key in (("Z1", dict(n=2), "a:1_u"), ("Z2", dict(n=2), "a:2"), ("Z3", dict(n=2), "b:1"), ("Z7", dict(n=2), "a:1")):
        for kind in (["exit_after_partial", "skip_output"] if not thorough else ALLFAULTS):
            if kind == "sigkill_shell": continue
            inst = zoo.ZOO[name](**kw); inst["faults"] = {key: kind}
            r = fc.closed_model(inst, liveness=False, workers=4, timeout=300)
            if r.error: chk.undecided.append("Flow closed model with fault: " + r.error[-200:]); continue
            chk.add_tlc(r); chk.evaluations += 1
            if not r.ok: chk.undecided.append("Flow.tla with %s failing (%s) violates %s" % (key, kind, r.violated or "deadlock"))
            else: chk.nontrivial.add("flowclosed:%s:%s:%s" % (name, key, kind))
    for kind in ("exit_after_all", "skip_output"):
        R.closed(FA(), maxruns=2, faults={"a:1": kind}, env=("rerun", "cleanup"))
    R.closed(FC(), maxruns=2, weak=["IgnoreCmdError"], faults={"a:1": "exit_after_all"})
    # real: every failing task x kind, other tasks running concurrently
    insts = [FA(), FB(2), FD()]
    z3 = zoo.Z3(n=3, mx=3); z3["ctl"] = {"ALL.sleep": "0.05"}; insts.append(z3)
    if thorough:
        z7 = zoo.Z7(n=3, mx=3); z7["ctl"] = {"ALL.sleep": "0.05"}; insts += [z7, zoo.Z1(n=3)]
    run_fault_cases(R, insts, ALLFAULTS, chk)
    # the standard command followed by further members of an AND-list: the failure of a non-final member is still a failure
    andl = [FA(), FB(2)]
    for i in andl:
        i["name"] += "AND"
        for pr in i["procs"]:
            if pr["kind"] == "cmd": pr["suffix"] = "&& true && echo validated > /dev/null"
    run_fault_cases(R, andl, ["exit_after_all", "exit_after_partial"], chk)
    # tasks that cannot be formed
    for label, vals in (("missing parameter value", ["u", "", "w"]), ("invalid output path", ["u", "v*x", "w"])):
        inst = zoo.Z1(n=3); inst["feeds"] = [dict(to="a.p", values=vals)]; inst["name"] = "ZP"
        rr = fc.real_runs(inst, [dict(env={}, bufsize=2, timeout=30)])[0]
        chk.evaluations += 1
        if rr.timeout or rr.deadlock:
            chk.violation("workflow hangs when a task cannot be formed (%s)" % label, dict(instance=inst))
        elif rr.rc == 0 or rr.completed:
            chk.violation("a task could not be formed (%s) but the workflow exited with status %s, completed=%s" % (label, rr.rc, rr.completed), dict(instance=inst, stderr=rr.stderr[-500:]))
        else:
            bad = [r for r in rr.cmdlog if r["tag"] == "S" and (r["key"] == "a:2_" or "v*x" in r["key"])]
            if bad: chk.violation("a command with an empty / invalid value was executed: %s" % bad, dict(instance=inst))
            chk.nontrivial.add("unformable:" + label)
    # a task of a process nobody reads from any more (its consumer stopped: the other in-port closed earlier) fails late
    for kind in ("exit_after_all", "skip_output"):
        inst = zoo.Z5c(n=3, m=1, mx=3); inst["name"] = "Z5cLATE"; inst["faults"] = {"a:a3": kind}; inst["ctl"] = {"a:a3.sleep": "0.8"}
        rr = fc.real_runs(inst, [dict(env={}, bufsize=2, timeout=30)])[0]
        chk.evaluations += 1
        if rr.timeout or rr.deadlock:
            chk.violation("workflow hangs when a surplus task of an abandoned upstream process fails (%s)" % kind, dict(instance=inst))
        elif rr.rc == 0 or rr.completed:
            chk.violation("task a:a3 (surplus task of a process whose consumer has stopped reading) was made to fail late (%s) but the workflow exited with status %s, completion reported=%s"
                          % (kind, rr.rc, rr.completed), dict(instance=inst, stderr=rr.stderr[-300:]))
        else:
            chk.nontrivial.add("late-failure:" + kind)
    # an invalid character in a DIRECTORY component of an output path (parameter value used as directory name)
    inst = zoo.Z1(n=3); inst["name"] = "ZPD"; inst["feeds"] = [dict(to="a.p", values=["u", "0.1,0.2", "w"])]
    for p in inst["procs"]:
        if p["name"] == "a": p["outpaths"] = {"out": "o/res_{p:p}/a.out_{i:in|basename|%.txt}.txt"}
    rr = fc.real_runs(inst, [dict(env={}, bufsize=2, timeout=30)])[0]
    chk.evaluations += 1
    ran = [r["key"] for r in rr.cmdlog if r["tag"] == "S"]
    if rr.timeout or rr.deadlock:
        chk.violation("workflow hangs when a task cannot be formed (invalid character in a directory component of the output path)", dict(instance=inst))
    elif rr.rc == 0 or rr.completed:
        chk.violation("an output path with an invalid character in a directory component (o/res_0.1,0.2/...) was accepted: exit status %s, completed=%s, executed %s"
                      % (rr.rc, rr.completed, [k for k in ran if "," in k]), dict(instance=inst, stderr=rr.stderr[-500:]))
    elif any("," in k for k in ran):
        chk.violation("a command for the unformable task was executed: %s" % [k for k in ran if "," in k], dict(instance=inst))
    else:
        chk.nontrivial.add("unformable:invalid directory component")
    # a task that does not produce its declared output, while ANOTHER task publishes a file at the very same path in the meantime
    inst = dict(name="SHMISS", max=3, bufsize=2,
                procs=[zoo.src("s", ["1"]),
                       dict(name="fast", kind="cmd", ins=["in"], outs=["out"], outpaths={"out": "o/shared.txt"}, arg="sleep 0.2; cat {i:in} > {o:out}"),
                       dict(name="slow", kind="cmd", ins=["in"], outs=["out"], outpaths={"out": "o/shared.txt"}, arg="sleep 1.0; cat {i:in} > /dev/null; true {o:out}"),
                       dict(name="use", kind="cmd", ins=["x"], outs=["out"], outpaths={"out": "o/use.txt"}, arg="echo USED > {o:out}; cat {i:x} >> {o:out}")],
                edges=[zoo.E("s.out", "fast.in"), zoo.E("s.out", "slow.in"), zoo.E("slow.out", "use.x")])
    for rr in fc.real_runs(inst, [dict(env={}, bufsize=2, timeout=30), dict(env={"VERIF_JITTER": "7"}, bufsize=2, timeout=30)]):
        chk.evaluations += 1
        used = "o/use.txt" in rr.snapshot
        if rr.timeout or rr.deadlock:
            chk.undecided.append("shared-path / missing-output scenario hangs")
        elif rr.rc == 0 or rr.completed or used:
            chk.violation("a task that did not produce its declared output was accepted because another task had published a file at the same path: exit status %s, "
                          "completed=%s, dependant executed=%s" % (rr.rc, rr.completed, used), dict(instance=inst, stderr=rr.stderr[-400:]))
        else:
            chk.nontrivial.add("missing-output:shared path")
    # two tasks fail at (almost) the same time while the error log cannot be written
    inst = FB(2); inst["faults"] = {"a:1": "exit_after_all_noisy", "a:2": "exit_after_all_noisy"}
    exp = fc.expected({k: v for k, v in inst.items() if k != "faults"})
    for rep in range(3 if thorough else 2):
        h = fs.History(inst, [("run", {"VERIF_SLOW_STDOUT": "1.5"})], label="two tasks fail concurrently, log writer blocked")
        fs.run_history(h); chk.evaluations += 1
        for key in ("a:1", "a:2"):
            fault_judge(R, inst, key, "exit_after_all (concurrent failures)")(h, exp)
        chk.nontrivial.add("concurrent-failures")
    return chk.finish()

@register("C02")
def check_C02(tier):
    chk = Check("C02", tier)
    chk.rule = ("Flow.tla (ExSkip) and TaskFS.tla (ExOutCheck, user files, re-runs): pre-existing subsets; real: every subset (small graphs) / random subsets of tasks "
                "whose outputs are placed by the user with arbitrary content, partial presence inside multi-output tasks, re-run of a completed workflow, "
                "re-run after a kill inside the publication window without cleanup; observed: commands' own start lines, inode/mtime/bytes before and after, "
                "downstream contents; non-trivial = distinct (instance, subset) with >= 1 skipped and >= 1 executed task")
    thorough = tier == "thorough"
    rng = random.Random(seed() * 7 + 2)
    build("wfdriver")
    R = FSRunner(chk, {"C02"})
    R.closed(FA(), maxruns=3)
    R.closed(FC(), maxruns=2, weak=["NoSkipCheck"])
    R.closed(FA(), maxruns=3, weak=["AllOutputsSkip"])
    # flow level closed models with pre-existing outputs
    for name, kw, pre in (("Z1", dict(n=3), ["a.out_2_v"]), ("Z3", dict(n=2), ["a.out_1", "b.out_2"]), ("Z7", dict(n=2), ["a.o1_1", "a.o2_1"])):
        inst = zoo.ZOO[name](**kw); inst["pre"] = pre
        r = fc.closed_model(inst, liveness=False, workers=4, timeout=300)
        if r.error: chk.undecided.append("Flow closed model with pre: " + r.error[-200:]); continue
        chk.add_tlc(r); chk.evaluations += 1
        if not r.ok: chk.undecided.append("Flow.tla with pre-existing %s violates %s" % (pre, r.violated or "deadlock"))
    # real: subsets of tasks with pre-existing (user) outputs
    cases = []
    # multi-core processes: a skipped task must leave the slot accounting alone (many skipped tasks in a row, few slots)
    mc1 = zoo.Z1(n=3, mx=3); mc1["name"] = "Z1MC"
    for p in mc1["procs"]:
        if p["kind"] == "cmd": p["cores"] = 2
    mc2 = zoo.Z13(n=4, mx=3); mc2["name"] = "Z13MC"
    for base in ([zoo.Z1(n=3, mx=2), zoo.Z3(n=2, mx=2), zoo.Z7(n=2, mx=2), mc1, mc2] + ([zoo.Z2(n=3), zoo.Z6(n=3), zoo.Z4(n=2)] if thorough else [])):
        exp = fc.expected(base)
        tasks = sorted(exp["tasks"], key=lambda t: t["key"])
        subsets = [list(tasks), tasks[:-1]] if base["name"].endswith("MC") else []
        if len(tasks) <= 6 and thorough:
            for m in range(1, 2 ** len(tasks)):
                subsets.append([t for i, t in enumerate(tasks) if m >> i & 1])
        else:
            for _ in range(14 if thorough else 6):
                subsets.append([t for t in tasks if rng.random() < 0.4] or [rng.choice(tasks)])
        for k, sub in enumerate(subsets):
            inst = dict(base); inst["pre"] = sorted(o for t in sub for o in t["outs"])
            # "arbitrary content": some of the user's files are empty (all of them in every third case)
            pc = {f: "" for f in inst["pre"] if k % 3 == 0 or rng.random() < 0.3}
            cases.append((inst, sub, pc))
    def one(c):
        inst, sub, pc = c
        exp = fc.expected(inst)
        vs = fc.jitter_variants(random.Random(rng.random()), 2, bufs=(1, 128))
        rrs = fc.real_runs(inst, vs, pre_content=pc)
        det, mon, rows = fc.validate_traces(inst, exp, [r for r in rrs if not r.timeout])
        return inst, sub, pc, exp, rrs, det, mon
    for inst, sub, pc, exp, rrs, det, mon in pmap(one, cases, workers=8):
        chk.evaluations += len(rrs)
        for r in (det, mon):
            if r is not None and not r.error: chk.add_tlc(r)
        if det is not None and det.ok: chk.traces += len(rrs)
        fc.judge_instance(chk, inst, exp, rrs, det, mon, {"C02"}, pre_content=pc, label="pre-existing %s" % inst["pre"])
        keys = {t["key"] for t in sub}
        for rr in rrs:
            ran = set(exec_counts(rr.cmdlog))
            if rr.timeout or rr.deadlock:
                chk.violation("with the outputs of %s on disk before the run the workflow stopped making progress (%s): downstream processes did not receive the "
                              "existing files and proceed; executed %s of %s (instance %s)" % (sorted(keys), "Go runtime deadlock report" if rr.deadlock else "timeout",
                              sorted(ran), sorted(set(exp["execkeys"])), inst["name"]), dict(instance=norm_inst(inst), cmdlog=rr.cmdlog[:40], trace_tail=rr.events[-30:]))
                continue
            if keys & ran:
                chk.violation("tasks %s were executed although their outputs existed before the run (instance %s)" % (sorted(keys & ran), inst["name"]),
                              dict(instance=norm_inst(inst), cmdlog=rr.cmdlog[:40]))
            if 0 < len(keys) < len(exp["tasks"]):
                chk.nontrivial.add(json.dumps([inst["name"], sorted(keys)]))
    if cases:
        chk.sample(dict(kind="pre-existing-subset", instance=cases[0][0]["name"], pre=cases[0][0]["pre"]))
    # histories: complete run then run again; partial presence; kill in the publication window then re-run without cleanup
    def rerun_judge(h, exp):
        first, second = h.runs[0], h.runs[-1]
        if second.timeout or second.deadlock:
            R.report("C02", "the re-run did not return (%s) (history %s)" % ("Go runtime deadlock report" if second.deadlock else "timeout", h.label), h)
            return
        ran = exec_counts(second.cmdlog)
        present = set(h.snaps[-2]["final"])
        bad = [t["key"] for t in exp["tasks"] if set(t["outs"]) & present and t["key"] in ran]
        if bad:
            R.report("C02", "re-run executed %s although declared outputs of these tasks existed (history %s)" % (bad, h.label), h)
        for fid in present:
            p = "o/%s.txt" % fid
            b, a = second.before.get(p), second.snapshot.get(p)
            if b and (a is None or b["sha"] != a["sha"] or b["ino"] != a["ino"] or b["mtime_ns"] != a["mtime_ns"]):
                R.report("C02", "existing output %s was modified/replaced by the re-run (history %s)" % (p, h.label), h)
    for inst in [FA(), FB(), FE("abs"), FE("parent")] + ([FD(), zoo.Z3(n=2)] if thorough else []):
        hs = [fs.History(inst, [("run", None), ("run", None)], label="complete run, run again")]
        exp = fc.expected(inst)
        for l, v in fs.crash_points(inst, exp):
            if l.startswith(("fin.rename.done", "fin.extra", "fin.rmtmp", "exec.fin")):
                hs.append(fs.History(inst, [("run", {"VERIF_CRASH": v}), ("run", None)], label="kill at %s, re-run without cleanup" % l))
                hs.append(fs.History(inst, [("run", {"VERIF_CRASH": v}), ("cleanup",), ("run", None)], label="kill at %s, cleanup, re-run" % l))
        if inst["name"] == "FB":
            for h in hs: h.accept = len(h.steps) == 2 and h.steps[1][0] == "run" and h.steps[0][1] is None
        R.histories(inst, hs, judge=rerun_judge)
    # in-place re-run of a completed workflow of multi-core tasks (monitors only: max > 1)
    mcb = dict(name="FBMC", max=3, bufsize=2, procs=[zoo.src("s", zoo.items(5)), zoo.cmd("a", ["in"], ["out"], cores=2), zoo.cmd("b", ["x"], ["out"], cores=3)],
               edges=[zoo.E("s.out", "a.in"), zoo.E("a.out", "b.x")])
    hmc = fs.History(mcb, [("run", None), ("run", None)], label="complete run of 2- and 3-core tasks, run again"); hmc.accept = False
    R.histories(mcb, [hmc], judge=rerun_judge)
    # an out-port whose path is declared with SetOut only (no {o:..} placeholder in the command: the tool picks its own file name)
    nph = dict(name="NPH", max=2, bufsize=2,
               procs=[zoo.src("s", zoo.items(2)),
                      dict(name="mk", kind="cmd", ins=["in"], outs=["report"], outpaths={"report": "o/report_{i:in|basename}"},
                           arg="echo RAN {i:in|basename} >> ../ran.log; mkdir -p o; cat {i:in} > o/report_{i:in|basename}"),
                      dict(name="use", kind="cmd", ins=["x"], outs=["out"], outpaths={"out": "o/use_{i:x|basename}"}, arg="cat {i:x} > {o:out}")],
               edges=[zoo.E("s.out", "mk.in"), zoo.E("mk.report", "use.x")])
    d = scratch("nph")
    try:
        prepare_dir(nph, d)
        os.makedirs(os.path.join(d, "o"), exist_ok=True)
        open(os.path.join(d, "o", "report_1.txt"), "w").write("USER REPORT\n")
        st0 = os.stat(os.path.join(d, "o", "report_1.txt"))
        rr = run_real(nph, d, timeout=40); chk.evaluations += 1
        ran = open(os.path.join(d, "ran.log")).read() if os.path.exists(os.path.join(d, "ran.log")) else ""
        st1 = os.stat(os.path.join(d, "o", "report_1.txt")) if os.path.exists(os.path.join(d, "o", "report_1.txt")) else None
        txt = open(os.path.join(d, "o", "report_1.txt")).read() if st1 else None
        if rr.timeout or rr.deadlock or rr.rc != 0 or not rr.completed:
            chk.undecided.append("placeholder-less out-port scenario failed: rc=%s %s" % (rr.rc, rr.stderr[-200:]))
        else:
            if "RAN 1.txt" in ran:
                chk.violation("task mk:1 was executed although its declared output o/report_1.txt (out-port declared with SetOut only, no placeholder in the command) existed", dict(instance=nph, ran=ran))
            if txt != "USER REPORT\n" or st1.st_ino != st0.st_ino or st1.st_mtime_ns != st0.st_mtime_ns:
                chk.violation("the existing output o/report_1.txt of a placeholder-less out-port was modified or replaced", dict(instance=nph, content=txt))
            use1 = rr.snapshot.get("o/use_report_1.txt", {}).get("text")
            if use1 != "USER REPORT\n":
                chk.violation("downstream did not receive the existing file of the placeholder-less out-port: o/use_report_1.txt = %r" % use1, dict(instance=nph))
            if "RAN 2.txt" in ran: chk.nontrivial.add("placeholder-less out-port")
    finally:
        rmtree(d)
    # an existing output that is not a plain regular file: a symbolic link to a precomputed file; a directory output of a completed run
    fcl = FC(); fcl["name"] = "FCLINK"
    d = scratch("lnk")
    try:
        prepare_dir(fcl, d)
        os.makedirs(os.path.join(d, "o"), exist_ok=True); os.makedirs(os.path.join(d, "precomputed"))
        open(os.path.join(d, "precomputed", "result.txt"), "w").write("USER PRECOMPUTED\n")
        os.symlink("../precomputed/result.txt", os.path.join(d, "o", "a.out_1.txt"))
        rr = run_real(fcl, d, timeout=40); chk.evaluations += 1
        lp = os.path.join(d, "o", "a.out_1.txt")
        if rr.timeout or rr.deadlock or rr.rc != 0 or not rr.completed:
            chk.undecided.append("symlink scenario failed rc=%s %s" % (rr.rc, rr.stderr[-200:]))
        elif "a:1" in exec_counts(rr.cmdlog) or not os.path.islink(lp) or open(lp).read() != "USER PRECOMPUTED\n":
            chk.violation("an existing output that is a symbolic link placed by the user was %s" % ("re-executed" if "a:1" in exec_counts(rr.cmdlog) else "replaced"), dict(instance=fcl))
        else:
            chk.nontrivial.add("symlink output")
    finally:
        rmtree(d)
    dirw = dict(name="DIRW", max=1, bufsize=2,
                procs=[zoo.src("s", ["1"]),
                       dict(name="a", kind="cmd", ins=["in"], outs=["parts"], outpaths={"parts": "o/parts"},
                            arg="echo RAN >> ../ran_a.log; mkdir {o:parts} && for i in 1 2 3; do echo part$i > {o:parts}/p$i; done && cat {i:in} > /dev/null"),
                       dict(name="b", kind="cmd", ins=["x"], outs=["out"], outpaths={"out": "o/count.txt"}, arg="echo RAN >> ../ran_b.log; cat {i:x}/* | wc -l > {o:out}")],
                edges=[zoo.E("s.out", "a.in"), zoo.E("a.parts", "b.x")])
    d = scratch("dirw")
    try:
        prepare_dir(dirw, d)
        r1 = run_real(dirw, d, timeout=40); r2 = run_real(dirw, d, timeout=40); chk.evaluations += 2
        ran = {x: (open(os.path.join(d, "ran_%s.log" % x)).read().count("RAN") if os.path.exists(os.path.join(d, "ran_%s.log" % x)) else 0) for x in "ab"}
        if r1.rc != 0 or not r1.completed:
            chk.undecided.append("directory-output workflow failed: %s" % r1.stderr[-200:])
        elif r2.timeout or r2.deadlock or r2.rc != 0 or not r2.completed or ran != {"a": 1, "b": 1}:
            chk.violation("re-running a completed workflow whose task has a directory output: rc=%s completed=%s, commands executed in total a x%d, b x%d (expected once each)"
                          % (r2.rc, r2.completed, ran["a"], ran["b"]), dict(instance=dirw, stderr=r2.stderr[-300:]))
        else:
            chk.nontrivial.add("directory output re-run")
    finally:
        rmtree(d)
    # scipipe's DEFAULT output names (no SetOut) for processes with two in-ports: in-place re-runs find the files of the first run
    dn = dict(name="DEFN", max=2, bufsize=2,
              procs=[zoo.src("s", ["1"]),
                     dict(name="mka", kind="cmd", ins=["in"], outs=["out"], outpaths={"out": "a.txt"}, arg="cat {i:in} > {o:out}"),
                     dict(name="mkb", kind="cmd", ins=["in"], outs=["out"], outpaths={"out": "b.txt"}, arg="cat {i:in} > {o:out}")] +
                    [dict(name="mg%d" % k, kind="cmd", ins=["x", "y"], outs=["out"], defaultnames=True,
                          arg="echo RAN mg%d >> ../ran.log; cat {i:x} {i:y} > {o:out|.txt}" % k) for k in range(6)],
              edges=[zoo.E("s.out", "mka.in"), zoo.E("s.out", "mkb.in")] + [zoo.E("mka.out", "mg%d.x" % k) for k in range(6)] + [zoo.E("mkb.out", "mg%d.y" % k) for k in range(6)])
    d = scratch("defn")
    try:
        prepare_dir(dn, d)
        r1 = run_real(dn, d, timeout=40)
        files1 = sorted(f for f in os.listdir(d) if f.endswith(".txt"))
        ran1 = open(os.path.join(d, "ran.log")).read().count("RAN") if os.path.exists(os.path.join(d, "ran.log")) else 0
        r2 = run_real(dn, d, timeout=40); r3 = run_real(dn, d, timeout=40); chk.evaluations += 3
        files3 = sorted(f for f in os.listdir(d) if f.endswith(".txt"))
        ran3 = open(os.path.join(d, "ran.log")).read().count("RAN") if os.path.exists(os.path.join(d, "ran.log")) else 0
        if r1.rc != 0 or not r1.completed or ran1 != 6:
            chk.undecided.append("default-name workflow failed: rc=%s ran=%s %s" % (r1.rc, ran1, r1.stderr[-200:]))
        elif r2.rc != 0 or r3.rc != 0 or ran3 != ran1 or files3 != files1:
            chk.violation("in-place re-runs of a completed workflow with default output names (two in-ports): %d further command executions, files before %d / after %d, exit %s / %s"
                          % (ran3 - ran1, len(files1), len(files3), r2.rc, r3.rc), dict(instance=dn, new_files=sorted(set(files3) - set(files1))))
        else:
            chk.nontrivial.add("default names, two in-ports")
    finally:
        rmtree(d)
    # outputs several directories deep: three runs in a row in the same directory (every skipped task leaves nothing behind)
    deep = FB(2); deep["name"] = "FBDEEP"
    for pr in deep["procs"]:
        if pr["kind"] != "src": pr["outdir"] = "o/results/step_%s/" % pr["name"]
    d = scratch("deep")
    try:
        prepare_dir(deep, d)
        rrs = []
        for _ in range(4):
            for f in ("trace.ndjson", "cmdlog", "return_snapshot.json"):
                try: os.remove(os.path.join(d, f))
                except FileNotFoundError: pass
            rrs.append(run_real(deep, d, timeout=40))
        chk.evaluations += 4
        left = [x for x in os.listdir(d) if x.startswith("_scipipe_tmp")]
        if rrs[0].rc != 0 or not rrs[0].completed:
            chk.undecided.append("deep-output workflow failed: %s" % rrs[0].stderr[-200:])
        elif any(r.rc != 0 or not r.completed for r in rrs[1:]) or left or any(exec_counts(r.cmdlog) for r in rrs[1:]):
            chk.violation("repeated in-place re-runs of a completed workflow with outputs several directories deep: exit status %s, temp dirs left %s, commands executed %s"
                          % ([r.rc for r in rrs], left[:2], [sorted(exec_counts(r.cmdlog)) for r in rrs[1:]]), dict(instance=deep, stderr=rrs[-1].stderr[-300:]))
        else:
            chk.nontrivial.add("deep outputs, four runs")
    finally:
        rmtree(d)
    # partial presence inside a multi-output task (user deleted / placed one of two outputs)
    for pre in (["a.o2_1"], ["a.o1_1"]):
        inst = FA(extra=False); inst["pre"] = pre
        h = fs.History(inst, [("run", None)], label="one of two outputs of a:1 placed by the user: %s" % pre); h.accept = False
        fs.run_history(h); chk.evaluations += 1
        rr = h.runs[0]
        if "a:1" in exec_counts(rr.cmdlog):
            R.report("C02", "task a:1 executed although its declared output %s existed" % pre, h)
        p = "o/%s.txt" % pre[0]
        if rr.snapshot.get(p, {}).get("text") != "USER %s\n" % pre[0]:
            R.report("C02", "user-placed output %s was modified" % p, h)
        chk.nontrivial.add("partial:%s" % pre)
    return chk.finish()
