"""C17: streaming outputs deliver the producer's bytes through a FIFO and leave no trace.
Stream.tla (pipe open/read/write/EOF semantics, slots, n pairs, re-run) is model-checked incl. weakened variants; real
streaming workflows are run for n pairs, payload sizes below/above the pipe buffer, both exit orders and the history
'run, run again'; bytes, directory listing, audit link and termination are observed."""
import random, json, os, re
from vlib import *
import zoo, flowcheck as fc, fscheck as fs
from . import register
import findings

def stream_cfg(n, mx, chunks, cap, rerun=False, weak=(), invs="C17_Bytes C17_Prefix C17_PipeBeforeUse C17_NoTrace C17_Slots", live=True):
    return ("CONSTANTS N = %d\n MaxSlots = %d\n Chunks = %d\n Cap = %d\n Rerun = %s\n Weak = {%s}\nSPECIFICATION Spec\nINVARIANTS %s\n%s"
            % (n, mx, chunks, cap, "TRUE" if rerun else "FALSE", ",".join('"%s"' % w for w in weak), invs, "PROPERTY C17_Terminates\n" if live else ""))

def stream_inst(n, mx, pad=0, ctl=None, extra_outs=()):
    i = dict(name="ST", max=mx, bufsize=4,
             procs=[zoo.src("s", zoo.items(n)), dict(name="p", kind="cmd", ins=["in"], outs=list(extra_outs) + ["out"], streams=["out"], cores=1), zoo.cmd("c", ["in"], ["out"])],
             edges=[zoo.E("s.out", "p.in"), zoo.E("p.out", "c.in")], ctl=dict(ctl or {}))
    if pad: i["ctl"]["p.pad"] = str(pad)
    return i

def expected_consumer(item, pad):
    pid = "p.out_%s" % item
    prod = "BEGIN %s\nSRC %s\n" % (pid, item) + (("x" * pad + "\n") if pad else "") + "END %s\n" % pid
    cid = "c.out_%s" % pid
    return "o/%s.txt" % cid, "BEGIN %s\n" % cid + prod + "END %s\n" % cid, "o/%s.txt" % pid

@register("C17")
def check_C17(tier):
    chk = Check("C17", tier)
    chk.rule = ("Flow.tla with streaming ports (FIFO hand-over at task.take, command rendez-vous, slots): n = 1..3 pairs at the exact slot bound max = n + 1, weak "
                "StreamAtDone / NoFifoRemove refuted, slot-bound counter-example replayed with gates, every real run validated by FlowTrace.tla; "
                "Stream.tla: n = 1..2 pairs, MaxSlots = 2n..2n+1, payload 0..3 chunks, pipe capacity 1..2, re-run; weakened variants refuted; real: n = 1..3 pairs, "
                "payloads {0, 1 KiB, 64 KiB +- 1, 1 MiB}, producer-lingers / consumer-lingers, jitter, history run + run again; observed: consumer bytes, no regular file "
                "at the stream path, no pipe and no temp dir at return, Upstream record names the producer; non-trivial = distinct (n, payload, exit order)")
    chk.assumptions = ["one consumer per streaming port, maxConcurrentTasks >= 2n (stated precondition)"]
    thorough = tier == "thorough"
    rng = random.Random(seed() * 53 + 17)
    build("wfdriver")
    for (n, mx, ch, cap) in [(1, 2, 0, 1), (1, 2, 2, 1), (1, 3, 3, 2), (2, 4, 2, 1)] + ([(2, 5, 3, 2), (2, 4, 3, 1)] if thorough else []):
        r = run_tlc("Stream", "s.cfg", cfgtext=stream_cfg(n, mx, ch, cap), workers=4, timeout=600)
        if r.error: chk.undecided.append("Stream.tla: " + r.error[-200:]); continue
        chk.add_tlc(r); chk.evaluations += 1
        if not r.ok: chk.undecided.append("Stream.tla (n=%d max=%d chunks=%d cap=%d) violates %s" % (n, mx, ch, cap, r.violated or "deadlock"))
        else: chk.sample(dict(kind="closed-model", pairs=n, max=mx, chunks=ch, cap=cap, distinct_states=r.distinct))
    for weak, inv in ((["NoFifoRemove"], "C17_NoTrace"), (["CloseEarly"], "C17_Bytes"), (["FifoAfterStart"], "C17_PipeBeforeUse")):
        r = run_tlc("Stream", "s.cfg", cfgtext=stream_cfg(1, 2, 2, 1, weak=weak, invs=inv, live=False), workers=2, timeout=120)
        chk.add_tlc(r)
        if not (r.violated or r.deadlock): chk.undecided.append("weakened Stream model %s found no counter-example" % weak)
        else: chk.extra.setdefault("weak_variants_refuted", []).append("%s -> %s" % (weak[0], r.violated or "deadlock"))
    # the faithful model's own counter-examples = findings F10 (audit link) and F5 (re-run)
    r10 = run_tlc("Stream", "s.cfg", cfgtext=stream_cfg(1, 2, 1, 1, invs="C17_AuditLink", live=False), workers=2, timeout=120); chk.add_tlc(r10)
    r5 = run_tlc("Stream", "s.cfg", cfgtext=stream_cfg(1, 2, 1, 1, rerun=True, invs="C17_Slots"), workers=2, timeout=120); chk.add_tlc(r5)
    model_f10 = bool(r10.violated); model_f5 = bool(r5.deadlock or r5.violated)
    # ---- Flow.tla: streaming inside the dataflow runtime (FIFO hand-over when the task is taken, rendez-vous of the two commands,
    #      slots): closed models for n pairs with the exact slot bound, weakened variants, gate replay of the bound's counter-example
    flow_cases = [(1, 2, {}), (2, 3, {}), (2, 4, dict(extra_outs=("copy",)))] + ([(3, 4, {}), (2, 3, dict(chain=True)), (3, 6, dict(extra_outs=("copy",)))] if thorough else [])
    def flow_inst(n, mx, extra_outs=(), chain=False, buf=1):
        i = stream_inst(n, mx, extra_outs=extra_outs); i["bufsize"] = buf
        if chain:
            i["procs"].append(zoo.cmd("d", ["x"], ["out"])); i["edges"].append(zoo.E("c.out", "d.x"))
        return i
    def closed(c):
        return c, fc.closed_model(flow_inst(c[0], c[1], **c[2]), liveness=True, workers=4, timeout=900 if thorough else 300)
    for c, r in pmap(closed, flow_cases, workers=3):
        if r.error: chk.undecided.append("Flow.tla streaming instance %s: %s" % (c, r.error[-200:])); continue
        chk.add_tlc(r); chk.evaluations += 1
        if not r.ok: chk.undecided.append("Flow.tla with streaming ports (n=%d max=%d %s) violates %s" % (c[0], c[1], c[2], r.violated or "deadlock"))
        else:
            chk.nontrivial.add("flow-closed:%s" % json.dumps(c))
            chk.sample(dict(kind="closed-model Flow.tla", pairs=c[0], max=c[1], options=c[2], distinct_states=r.distinct))
    for weak, expect in (("StreamAtDone", "deadlock"), ("NoFifoRemove", "C17_NoFifoLeft")):
        r = fc.closed_model(flow_inst(1, 2), liveness=False, workers=2, timeout=120, weak=[weak]); chk.add_tlc(r)
        if not (r.violated or r.deadlock): chk.undecided.append("weakened Flow model %s found no counter-example" % weak)
        else: chk.extra.setdefault("weak_variants_refuted", []).append("Flow:%s -> %s" % (weak, r.violated or "deadlock"))
    # the model's slot bound: n producers can take n slots before any consumer runs, so max = n dead-locks and max = n + 1 does not.
    # Below the stated precondition (max >= 2n) this is not a violation; the counter-example is replayed to show model and code agree.
    rb = fc.closed_model(flow_inst(2, 2), liveness=False, workers=2, timeout=120); chk.add_tlc(rb)
    sched = "exec.acquired@p|in=in/1.txt#1,exec.acquired@p|in=in/2.txt#1,exec.begin@c|in=#1"
    if not rb.deadlock:
        chk.undecided.append("Flow.tla: two streaming pairs with two slots do not dead-lock in the model - slot bound changed?")
    else:
        got = []
        for mx in (2, 3):
            rr = fc.real_runs(flow_inst(2, mx, buf=2), [dict(env={"VERIF_SCHED": sched, "VERIF_GATE_MS": "3000"}, bufsize=2, timeout=15)])[0]
            chk.evaluations += 1
            got.append((mx, bool(rr.timeout or rr.deadlock), rr.completed))
        chk.extra["slot_bound_replay"] = dict(schedule=sched, results=[dict(max=m, hangs=h, completed=c) for m, h, c in got],
                                              model="max = n dead-locks (both producers hold the slots), max = n + 1 terminates")
        if got[1][1] or not got[1][2]:
            chk.violation("two streaming pairs with three slots (both producers first) did not terminate although one consumer fits", dict(instance=flow_inst(2, 3), schedule=sched))
        if not got[0][1]:
            print("DRIFT: the model's dead-lock for two streaming pairs on two slots (both producers acquire first) was not reproduced", flush=True)
    # ---- real runs --------------------------------------------------------------------------
    pads = [0, 1000, 65535, 65537] + ([1 << 20, 65536, 200000] if thorough else [1 << 20])
    cases = []
    for n in (1, 2, 3):
        for pad in pads:
            for order in ("together", "producer_lingers", "consumer_lingers"):
                if thorough or rng.random() < 0.4 or (n == 1 and pad in (0, 65537)):
                    cases.append((n, pad, order, False))
    # producers with further regular out-ports besides the streaming one (the order in which the Run loop visits them is random)
    for rep in range(8 if thorough else 4):
        cases.append((rng.choice([1, 2]), rng.choice([0, 1000, 65537]), "together", True))
    # a stale regular file sits at the streaming output path (left by an earlier non-streaming version of the workflow)
    cases.append((2, 1000, "stale", False))
    def one(c):
        n, pad, order, multi = c
        ctl = {}
        if order == "producer_lingers": ctl["p.postsleep"] = "0.4"
        if order == "consumer_lingers": ctl["c.postsleep"] = "0.4"
        inst = stream_inst(n, 2 * n + rng.choice([0, 1]), pad, ctl, extra_outs=("copy", "copy2") if multi else ())
        if order == "stale":
            inst["pre"] = ["p.out_1"]
        vs = [dict(env={}, bufsize=4, timeout=40), dict(env={"VERIF_JITTER": str(rng.randrange(10**6))}, bufsize=1, timeout=40)]
        rrs = fc.real_runs(inst, vs[: (2 if thorough else 1)] if pad < 100000 else vs[:1])
        det = mon = None
        good = [r for r in rrs if not (r.timeout or r.deadlock) and r.rc == 0]
        if order != "stale" and good:
            det, mon, _ = fc.validate_traces(inst, fc.expected(inst), good)
        return c, inst, rrs, det, mon
    for c, inst, rrs, det, mon in pmap(one, cases, workers=8):
        n, pad, order, multi = c
        for res, kind in ((det, "FlowTrace"), (mon, "Monitor")):
            if res is None: continue
            if res.error: chk.undecided.append("%s on a streaming run: %s" % (kind, res.error[-200:])); continue
            chk.add_tlc(res)
            if res.violated:
                if fc.prop_of_invariant(res.violated) == "C17":
                    chk.violation("invariant %s violated on the trace of a real streaming run (%s, n=%d payload=%d %s)" % (res.violated, kind, n, pad, order), dict(instance=inst, tlc=res.out[-2500:]))
                else: chk.notes.append("other-property %s" % res.violated)
            elif res.rejected and kind == "FlowTrace":
                print("DRIFT: FlowTrace rejected a recorded streaming run (n=%d payload=%d %s) at line %d: %s" % (n, pad, order, res.rejected[0], res.rejected[1][:200]), flush=True)
                chk.extra["drift"] = chk.extra.get("drift", 0) + 1
            elif res.ok and kind == "FlowTrace":
                chk.traces += len([r for r in rrs if r.rc == 0])
        label = "n=%d payload=%d %s max=%d%s" % (n, pad, order, inst["max"], " producer with 2 further regular out-ports" if multi else "")
        for rr in rrs:
            chk.evaluations += 1
            replay = dict(instance=inst, case=label, variant=rr.variant)
            if rr.timeout or rr.deadlock:
                chk.violation("streaming workflow did not terminate (%s)" % label, replay); continue
            if rr.rc != 0 or not rr.completed:
                chk.violation("streaming workflow failed rc=%s (%s): %s" % (rr.rc, label, rr.stderr[-200:].replace("\n", " | ")), replay); continue
            snap = rr.snapshot
            ret = {e["path"]: e for e in (rr.return_snapshot or [])}
            for item in zoo.items(n):
                cpath, want, ppath = expected_consumer(item, pad)
                got = snap.get(cpath, {}).get("text")
                if got != want:
                    chk.violation("consumer did not receive exactly the producer's bytes (%s): %d bytes instead of %d" % (label, len(got or ""), len(want)), replay)
                if (ppath in snap or ppath in ret) and path_id(ppath) not in inst.get("pre", []):
                    chk.violation("a regular file appeared at the streaming output path %s (%s)" % (ppath, label), replay)
                aud = snap.get(cpath + ".audit.json", {}).get("text")
                up = (json.loads(aud).get("Upstream") or {}) if aud else {}
                rec = up.get(ppath)
                if rec is None or rec.get("ProcessName") != "p":
                    msg = "consumer's audit record does not name the producing task as upstream of %s (%s): %s" % (ppath, label, json.dumps(rec)[:120] if rec else sorted(up))
                    if rec is not None and rec.get("ProcessName", "") == "" and findings.active("F10"):
                        chk.known_finding("F10", "consumer wrote its audit record before the producer had set the record of the streamed IP: Upstream[%s] is an empty record" % ppath)
                    else:
                        chk.violation(msg, replay)
            left = [p for p in list(snap) + list(ret) if p.endswith(".fifo") or os.path.basename(p).startswith("_scipipe_tmp")]
            if left:
                chk.violation("pipe / temp dir left behind at return (%s): %s" % (label, sorted(set(left))[:3]), replay)
        chk.nontrivial.add(json.dumps(c))
        chk.sample(dict(kind="streaming-run", case=label, runs=len(rrs)), limit=6)
    # ---- streaming outputs declared in not-yet-existing directories: nested below the working directory, and by an absolute path
    for outdir in ("sub/dir/", "$PWD/absout/deeper/"):
        inst = stream_inst(2, 4, 1000); inst["name"] = "STDIR"
        for pr in inst["procs"]:
            if pr["name"] == "p": pr["outdir"] = outdir
        rr = fc.real_runs(inst, [dict(env={}, bufsize=4, timeout=30)])[0]
        chk.evaluations += 1
        replay = dict(instance=inst, outdir=outdir)
        if rr.timeout or rr.deadlock or rr.rc != 0 or not rr.completed:
            chk.violation("streaming output declared in %r: workflow %s: %s" % (outdir, "did not terminate" if (rr.timeout or rr.deadlock) else "failed rc=%s" % rr.rc,
                                                                             rr.stderr[-200:].replace("\n", " | ")), replay); continue
        for item in zoo.items(2):
            cpath, want, _ = expected_consumer(item, 1000)
            got = rr.snapshot.get(cpath, {}).get("text")
            if got != want:
                chk.violation("streaming output declared in %r: consumer did not receive exactly the producer's bytes (%d instead of %d)" % (outdir, len(got or ""), len(want)), replay)
        left = [p for p in rr.snapshot if p.endswith(".fifo") or os.path.basename(p) in ("p.out_1.txt", "p.out_2.txt") or os.path.basename(p).startswith("_scipipe_tmp")]
        if left:
            chk.violation("streaming output declared in %r: pipe, regular file at the stream path or temp dir left behind: %s" % (outdir, left[:3]), replay)
        else:
            chk.nontrivial.add("stream-dir:" + outdir)
    # ---- history: complete run, then run again ------------------------------------------------
    inst = stream_inst(2, 4, 1000)
    h = fs.History(inst, [("run", None), ("run", None)], label="complete streaming run, run again"); h.accept = False
    h.exp = None
    fs.run_history(h, timeout=12)
    chk.evaluations += 2
    second = h.runs[-1]
    if second.timeout or second.deadlock:
        msg = "re-running a completed streaming workflow does not terminate: the consumer is skipped (outputs exist), the producer is not and blocks opening the pipe"
        if findings.active("F5") and model_f5: chk.known_finding("F5", msg)
        else: chk.violation(msg, dict(instance=inst))
    else:
        first = h.runs[0]
        for p, v in first.snapshot.items():
            if p.startswith("o/c.out") and p.endswith(".txt"):
                a = second.snapshot.get(p)
                if not a or a["sha"] != v["sha"] or a["ino"] != v["ino"]:
                    chk.violation("re-run modified the consumer's output %s" % p, dict(instance=inst))
    # the same history for a producer that also has a regular out-port: on the second run producer AND consumer are skipped
    inst = stream_inst(2, 4, 1000, extra_outs=("copy",))
    h = fs.History(inst, [("run", None), ("run", None)], label="complete streaming run (producer with a regular out-port too), run again"); h.accept = False
    h.exp = None
    fs.run_history(h, timeout=15)
    chk.evaluations += 2
    first, second = h.runs[0], h.runs[-1]
    if first.rc != 0 or not first.completed:
        chk.undecided.append("streaming run with a further regular out-port failed: %s" % first.stderr[-200:])
    elif second.timeout or second.deadlock or second.rc != 0 or not second.completed:
        chk.violation("re-running a completed streaming workflow whose producer also has a regular out-port does not terminate normally (%s)"
                      % ("hangs" if (second.timeout or second.deadlock) else "rc=%s %s" % (second.rc, second.stderr[-160:].replace("\n", " | "))), dict(instance=inst))
    else:
        for p, v in first.snapshot.items():
            if p.startswith("o/") and p.endswith(".txt"):
                a = second.snapshot.get(p)
                if not a or a["sha"] != v["sha"] or a["ino"] != v["ino"]:
                    chk.violation("re-run modified %s" % p, dict(instance=inst))
        left = [p for p in second.snapshot if p.endswith(".fifo") or os.path.basename(p).startswith("_scipipe_tmp")]
        if left: chk.violation("re-run left a pipe / temp dir behind: %s" % left[:3], dict(instance=inst))
        chk.nontrivial.add("rerun:multi-out producer")
    # a producer with TWO streaming out-ports, one consumer each (three commands rendez-vous per item)
    two = dict(name="ST2", max=6, bufsize=4,
               procs=[zoo.src("s", zoo.items(2)), dict(name="p", kind="cmd", ins=["in"], outs=["left", "right"], streams=["left", "right"]),
                      zoo.cmd("cl", ["in"], ["out"]), zoo.cmd("cr", ["in"], ["out"])],
               edges=[zoo.E("s.out", "p.in"), zoo.E("p.left", "cl.in"), zoo.E("p.right", "cr.in")])
    for rr in fc.real_runs(two, [dict(env={}, bufsize=4, timeout=30), dict(env={"VERIF_JITTER": "3"}, bufsize=1, timeout=30)]):
        chk.evaluations += 1
        if rr.timeout or rr.deadlock or rr.rc != 0 or not rr.completed:
            chk.violation("producer with two streaming out-ports: workflow %s" % ("did not terminate" if (rr.timeout or rr.deadlock) else "failed rc=%s %s" % (rr.rc, rr.stderr[-160:].replace("\n", " | "))), dict(instance=two)); continue
        for item in zoo.items(2):
            for port, cons in (("left", "cl"), ("right", "cr")):
                pid = "p.%s_%s" % (port, item); cid = "%s.out_%s" % (cons, pid)
                want = "BEGIN %s\nBEGIN %s\nSRC %s\nEND %s\nEND %s\n" % (cid, pid, item, pid, cid)
                got = rr.snapshot.get("o/%s.txt" % cid, {}).get("text")
                if got != want:
                    chk.violation("producer with two streaming out-ports: the consumer of port %s did not receive exactly the producer's bytes for item %s (%r)" % (port, item, (got or "")[:60]), dict(instance=two))
        left = [p for p in rr.snapshot if p.endswith(".fifo") or os.path.basename(p).startswith("p.") and p.endswith(".txt") or os.path.basename(p).startswith("_scipipe_tmp")]
        if left: chk.violation("producer with two streaming out-ports: pipe / regular file at a stream path / temp dir left: %s" % left[:3], dict(instance=two))
        else: chk.nontrivial.add("two-stream-ports")
    # heavy producer, light consumer: CoresPerTask(producer) + CoresPerTask(consumer) slots suffice for one pair
    for pc, cc, mx in ((2, 1, 3), (4, 1, 6), (3, 2, 5)):
        inst = stream_inst(1, mx, 1000); inst["name"] = "STCORES"
        for pr in inst["procs"]:
            if pr["name"] == "p": pr["cores"] = pc
            if pr["name"] == "c": pr["cores"] = cc
        r = fc.closed_model(inst, liveness=True, workers=2, timeout=120)
        if r.error: chk.undecided.append("Flow.tla streaming with cores %d/%d on %d slots: %s" % (pc, cc, mx, r.error[-160:]))
        else:
            chk.add_tlc(r)
            if not r.ok: chk.undecided.append("Flow.tla: streaming pair with cores %d/%d dead-locks on %d slots in the model" % (pc, cc, mx))
        rr = fc.real_runs(inst, [dict(env={}, bufsize=4, timeout=30)])[0]
        chk.evaluations += 1
        cpath, want, _ = expected_consumer("1", 1000)
        if rr.timeout or rr.deadlock or rr.rc != 0 or not rr.completed or rr.snapshot.get(cpath, {}).get("text") != want:
            chk.violation("streaming pair with producer CoresPerTask=%d, consumer CoresPerTask=%d on %d slots (both fit together) did not complete: rc=%s %s"
                          % (pc, cc, mx, rr.rc, rr.stderr[-160:].replace("\n", " | ")), dict(instance=inst))
        else:
            chk.nontrivial.add("stream-cores:%d/%d/%d" % (pc, cc, mx))
    chk.extra["model_counterexamples"] = dict(F10_audit_link=model_f10, F5_rerun=model_f5)
    return chk.finish()
