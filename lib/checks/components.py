"""C19: bundled components compute what they advertise.
Components.tla transcribes combine (all key orders), the selector's lock-step filter and the splitter's line loop, checks the
advertised results over the enumerated input space and exports the cases; every case is replayed on the real component
inside a tiny workflow (independent sources per port, lock-step collector), plus concatenator, sources, globber, readers."""
import random, json, os, re, subprocess, itertools, glob as pyglob
from vlib import *
from . import register

def comp_cases(maxports, maxlen, maxlines, maxsplit, maxselports=2, maxsellen=3):
    cfg = ("CONSTANTS MaxPorts = %d\n MaxLen = %d\n MaxLines = %d\n MaxSplit = %d\n MaxSelPorts = %d\n MaxSelLen = %d\nSPECIFICATION Spec\n"
           "INVARIANTS C19_Cartesian C19_Split C19_Select Export\n" % (maxports, maxlen, maxlines, maxsplit, maxselports, maxsellen))
    r = run_tlc("Components", "c.cfg", cfgtext=cfg, workers=4, timeout=1200, heap="6g")
    cases = [json.loads(json.loads('"' + m.group(1) + '"')) for m in re.finditer(r'^"CASE (.*)"$', r.out, re.M)]
    return r, cases

def run_comp(case, files=None, bufsize=2, timeout=40):
    d = scratch("ct")
    try:
        os.makedirs(os.path.join(d, "in"))
        for path, content in (files or {}).items():
            os.makedirs(os.path.dirname(os.path.join(d, path)) or d, exist_ok=True)
            open(os.path.join(d, path), "w").write(content)
        json.dump(case, open(os.path.join(d, "case.json"), "w"))
        env = dict(os.environ, SCIPIPE_BUFSIZE=str(bufsize))
        try:
            p = subprocess.run([build("comptest"), "case.json"], cwd=d, env=env, capture_output=True, text=True, timeout=timeout)
        except subprocess.TimeoutExpired:
            return dict(timeout=True, rc=-1, result=None, err="timeout", dir_files={})
        m = re.search(r"^RESULT (.*)$", p.stdout, re.M)
        out_files = {}
        for root, ds, fs_ in os.walk(d):
            for f in fs_:
                full = os.path.join(root, f); rel = os.path.relpath(full, d)
                if rel.startswith(("wf", "case.json")): continue
                try: out_files[rel] = open(full).read()
                except Exception: pass
        return dict(timeout=False, rc=p.returncode, result=json.loads(m.group(1)) if m else None, err=p.stderr[-400:], deadlock="all goroutines are asleep" in p.stderr, dir_files=out_files)
    finally:
        rmtree(d)

@register("C19")
def check_C19(tier):
    chk = Check("C19", tier)
    chk.rule = ("Components.tla: combine over 1..MaxPorts ports x lengths 0..MaxLen x every key order (Cartesian product, each tuple once, aligned), splitter loop over "
                "0..MaxLines lines x 1..MaxSplit lines per part (parts concatenate back, none longer than the limit); each exported case replayed on FileCombinator and "
                "ParamCombinator with independent sources (lengths beyond the buffer) and with one shared source (lengths <= buffer), IPSelectorSync with predicate "
                "patterns, FileSplitter, Concatenator, FileSource / ParamSource / FileGlobber / FileToParamsReader / CommandToParams; "
                "non-trivial = distinct cases with >= 2 ports and >= 2 tuples, or >= 2 parts")
    thorough = tier == "thorough"
    rng = random.Random(seed() * 59 + 19)
    build("comptest")
    r, cases = comp_cases(4 if thorough else 3, 3 if thorough else 2, 9 if thorough else 7, 4 if thorough else 3, 3 if thorough else 2, 3)
    if r.error or not cases:
        chk.undecided.append("Components.tla: %s" % (r.error or "no cases")[-300:]); return chk.finish()
    chk.add_tlc(r)
    if r.violated: chk.undecided.append("Components.tla: the transcription violates %s" % r.violated)
    # concurrency of collect-then-send (Combinator.tla): independent upstreams of any length never dead-lock, one shared
    # upstream only up to the buffer size (the boundary stated in the property: TLC must find the dead-lock beyond it)
    def comb_cfg(np_, ln, buf, shared):
        return ("CONSTANTS NPorts = %d\n Len1 = %d\n BufSize = %d\n Shared = %s\nSPECIFICATION Spec\nINVARIANT C19_AllCollected\nPROPERTY C19_Finishes\n"
                % (np_, ln, buf, "TRUE" if shared else "FALSE"))
    for (np_, ln, buf, shared, expect_ok) in [(2, 4, 2, False, True), (3, 3, 1, False, True), (2, 2, 2, True, True), (3, 2, 2, True, True), (2, 3, 2, True, False)] + \
                                           ([(2, 6, 2, False, True), (3, 4, 2, False, True), (2, 5, 3, True, False)] if thorough else []):
        rc = run_tlc("Combinator", "cb.cfg", cfgtext=comb_cfg(np_, ln, buf, shared), workers=2, timeout=300)
        if rc.error: chk.undecided.append("Combinator.tla: " + rc.error[-200:]); continue
        chk.add_tlc(rc)
        if expect_ok and not rc.ok:
            chk.undecided.append("Combinator.tla (ports=%d len=%d buf=%d shared=%s): %s" % (np_, ln, buf, shared, rc.violated or "deadlock"))
        if not expect_ok and rc.ok:
            chk.undecided.append("Combinator.tla: the documented boundary (shared upstream beyond the buffer size dead-locks) is not reproduced by the model")
        if not expect_ok and not rc.ok:
            chk.extra.setdefault("documented_boundary", []).append("shared upstream, len %d > bufsize %d: dead-lock (outside the property's quantifier)" % (ln, buf))
    names = ["a", "b", "c", "d"]
    jobs = []
    seen = set()
    for c in cases:
        if c["kind"] == "combine":
            key = tuple(c["lens"])
            if key in seen: continue     # key orders are a property of the transcription; the real map order is random anyway
            seen.add(key)
            streams = {names[i]: ["in/%s%d.txt" % (names[i], k) for k in range(1, n + 1)] for i, n in enumerate(c["lens"])}
            files = {p: "DATA %s\n" % p for s in streams.values() for p in s}
            jobs.append(("fcomb", dict(op="fcomb", streams=streams), files, c, 2))
            jobs.append(("pcomb", dict(op="pcomb", streams={k: [os.path.basename(x)[:-4] for x in v] for k, v in streams.items()}), {}, c, 2))
            if len(set(c["lens"])) == 1 and c["np"] >= 2 and c["lens"][0] <= 2:
                jobs.append(("fcomb-shared", dict(op="fcomb", shared=True, streams={k: streams["a"] for k in streams}), files, c, 2))
            if len(set(c["lens"])) == 1 and c["np"] >= 1:
                n = c["lens"][0]
                allitems = [os.path.basename(x) for s in streams.values() for x in s]
                drop = [x for x in allitems if rng.random() < 0.3]
                jobs.append(("selector", dict(op="selector", streams=streams, drop=drop), files, c, 2))
        elif c["kind"] == "select":
            # every predicate mask over np aligned streams of length n: the tuples TLC says are kept (c["keep"]) are the oracle
            streams = {names[i]: ["in/%s%d.txt" % (names[i], k) for k in range(1, c["n"] + 1)] for i in range(c["np"])}
            files = {p: "DATA %s\n" % p for s_ in streams.values() for p in s_}
            drop = [os.path.basename(streams[names[i]][k]) for i in range(c["np"]) for k in range(c["n"]) if not c["mask"][i][k]]
            jobs.append(("selector", dict(op="selector", streams=streams, drop=drop), files, c, 1 if sum(map(len, c["mask"])) % 2 else 2))
        else:
            lines = ["line %d of %d" % (i, c["lines"]) for i in range(1, c["lines"] + 1)]
            jobs.append(("split", dict(op="split", path="in/data.txt", n=c["n"]), {"in/data.txt": "".join(l + "\n" for l in lines)}, c, 2))
    # independent upstreams beyond the buffer size
    for np_, ln in ((2, 5), (3, 4), (2, 7)) if thorough else ((2, 5), (3, 4)):
        streams = {names[i]: ["in/%s%d.txt" % (names[i], k) for k in range(1, ln + 1 - i)] for i in range(np_)}
        files = {p: "DATA %s\n" % p for s in streams.values() for p in s}
        jobs.append(("fcomb", dict(op="fcomb", streams=streams), files, dict(kind="combine", lens=[len(streams[n]) for n in sorted(streams)], np=np_), 1))
        jobs.append(("pcomb", dict(op="pcomb", streams={k: [os.path.basename(x)[:-4] for x in v] for k, v in streams.items()}), {}, dict(kind="combine", lens=[len(streams[n]) for n in sorted(streams)], np=np_), 1))
        eq = {names[i]: ["in/%s%d.txt" % (names[i], k) for k in range(1, ln + 1)] for i in range(np_)}
        files = {p: "DATA %s\n" % p for s in eq.values() for p in s}
        allitems = [os.path.basename(x) for s in eq.values() for x in s]
        jobs.append(("selector", dict(op="selector", streams=eq, drop=[x for x in allitems if rng.random() < 0.3]), files, dict(kind="combine", lens=[ln] * np_, np=np_), 1))
    # long streams through the selector with a consumer that is slower than the producers (the component buffers tuples internally)
    for np_, ln, pace in ((2, 40, 3), (3, 60, 2)) + (((2, 150, 1),) if thorough else ()):
        eq = {names[i]: ["in/%s%d.txt" % (names[i], k) for k in range(1, ln + 1)] for i in range(np_)}
        files = {p: "DATA %s\n" % p for s_ in eq.values() for p in s_}
        drop = [os.path.basename(eq[names[0]][k]) for k in range(4, ln, 5)]
        jobs.append(("selector", dict(op="selector", streams=eq, drop=drop, pace_ms=pace), files, dict(kind="combine", lens=[ln] * np_, np=np_), 2))
    # several files through one FileSplitter in the same run (every file is split on its own)
    for sizes, n in (((2, 4, 7, 0), 3), ((5, 5), 2), ((1, 6, 3), 3)):
        fl = ["in/f%d.txt" % k for k in range(len(sizes))]
        files = {fl[k]: "".join("f%d line %d\n" % (k, i) for i in range(1, sizes[k] + 1)) for k in range(len(sizes))}
        jobs.append(("splitmany", dict(op="splitmany", files=fl, n=n), files, dict(kind="splitmany", sizes=list(sizes), n=n), 2))
    # lines far longer than any internal buffer (5000 and 30000 characters; bufio.Scanner gives up beyond 64 KiB, loudly) are still ONE line each
    longf = {"in/long.txt": "short 1\n" + "L" * 5000 + "\nshort 3\n" + "M" * 30000 + "\nshort 5\n"}
    jobs.append(("splitmany", dict(op="splitmany", files=["in/long.txt"], n=2), longf, dict(kind="splitmany", sizes=[5], n=2), 2))
    def one(j):
        kind, case, files, c, buf = j
        return j, run_comp(case, files, bufsize=buf)
    for (kind, case, files, c, buf), res in pmap(one, jobs, workers=16):
        chk.evaluations += 1
        replay = dict(kind=kind, case=case, tlc_case=c, bufsize=buf)
        if res["timeout"] or res.get("deadlock"):
            chk.violation("%s with stream lengths %s (bufsize %d) hangs" % (kind, c.get("lens", c), buf), replay); continue
        if res["rc"] != 0 or res["result"] is None:
            chk.violation("%s with %s failed: rc=%s %s" % (kind, c, res["rc"], res["err"][-200:].replace("\n", " | ")), replay); continue
        tuples = res["result"].get("tuples") or []
        if kind in ("fcomb", "pcomb", "fcomb-shared"):
            streams = case["streams"]
            ports = sorted(streams)
            want = set(itertools.product(*[streams[p] for p in ports]))
            got = [tuple(t.get(p) for p in ports) for t in tuples]
            if res["result"].get("extra"):
                chk.violation("%s: out-ports are not aligned (lengths differ): leftover items %s for input lengths %s" % (kind, res["result"]["extra"], c["lens"]), replay)
            elif set(got) != want or len(got) != len(want):
                chk.violation("%s does not emit the Cartesian product exactly once for input lengths %s: %d tuples, %d distinct, expected %d" % (kind, c["lens"], len(got), len(set(got)), len(want)), replay)
            if len(ports) >= 2 and len(want) >= 2: chk.nontrivial.add("%s:%s" % (kind, c["lens"]))
        elif kind == "selector":
            streams = case["streams"]; ports = sorted(streams); drop = set(case["drop"])
            n = len(streams[ports[0]])
            want = [tuple(streams[p][i] for p in ports) for i in range(n) if all(os.path.basename(streams[p][i]) not in drop for p in ports)]
            if c.get("kind") == "select":
                want_tlc = [tuple(streams[p][k - 1] for p in ports) for k in c["keep"]]
                if want_tlc != want:
                    chk.undecided.append("selector case %s: the harness' expectation differs from Components.tla" % c); continue
            got = [tuple(t.get(p) for p in ports) for t in tuples]
            if got != want or res["result"].get("extra"):
                chk.violation("IPSelectorSync forwarded %s, expected exactly the aligned tuples whose members all satisfy the predicate: %s" % (got[:4], want[:4]), replay)
            if n >= 2: chk.nontrivial.add("selector:%s:%s" % (c.get("lens", (c.get("np"), c.get("n"))), sorted(drop)))
        elif kind == "splitmany":
            contents = [res["dir_files"].get(t.get("in")) for t in tuples]
            pos = 0
            for k, size in enumerate(c["sizes"]):
                nparts = size // c["n"] + 1        # the loop opens a new part after every n-th line: one (possibly empty) part at the end
                mine = contents[pos:pos + nparts]; pos += nparts
                whole = case["files"][k]
                if any(x is None for x in mine) or "".join(mine) != files[whole]:
                    chk.violation("FileSplitter (several files in one run): the parts of file %d (%d lines, %d per part) do not concatenate back to it: part sizes %s"
                                  % (k, size, c["n"], [len((x or "").splitlines()) for x in mine]), replay); break
                if any(len(x.splitlines()) > c["n"] for x in mine):
                    chk.violation("FileSplitter (several files in one run): a part of file %d (%d lines) is longer than the limit of %d lines: %s"
                                  % (k, size, c["n"], [len(x.splitlines()) for x in mine]), replay); break
            else:
                if pos != len(contents):
                    chk.violation("FileSplitter (several files in one run) emitted %d parts, expected %d" % (len(contents), pos), replay)
                else:
                    chk.nontrivial.add("splitmany:%s:%d" % (c["sizes"], c["n"]))
        elif kind == "split":
            parts = [t["in"] for t in tuples]
            contents = [res["dir_files"].get(p) for p in parts]
            orig = files["in/data.txt"]
            if any(x is None for x in contents) or "".join(contents) != orig:
                chk.violation("FileSplitter: the parts do not concatenate back to the input (%d lines, %d per part): parts %s" % (c["lines"], c["n"], [len((x or "").splitlines()) for x in contents]), replay)
            elif any(len(x.splitlines()) > c["n"] for x in contents):
                chk.violation("FileSplitter: a part is longer than %d lines" % c["n"], replay)
            elif [len(x.splitlines()) for x in contents] != c["parts"]:
                print("DRIFT: FileSplitter part sizes %s differ from the transcription %s" % ([len(x.splitlines()) for x in contents], c["parts"]), flush=True)
            if len(parts) >= 2: chk.nontrivial.add("split:%d:%d" % (c["lines"], c["n"]))
    # Concatenator, sources, globber, readers (expected results are the advertised identities)
    simple = []
    for n in (0, 1, 3, 5):
        fl = ["in/f%d.txt" % k for k in range(n, 0, -1)]     # deliberately not in lexical order
        files = {p: "content of %s\nsecond line\n" % p for p in fl}
        simple.append(("concat", dict(op="concat", files=fl, out="res/cat.txt"), files, fl))
        simple.append(("filesource", dict(op="filesource", files=fl), files, fl))
        simple.append(("paramsource", dict(op="paramsource", values=[os.path.basename(x) for x in fl]), {}, [os.path.basename(x) for x in fl]))
    tree = {"t/a1.txt": "x", "t/a2.txt": "x", "t/b1.csv": "x", "t/sub/a3.txt": "x", "t/sub/c.txt": "x", "t/a10.txt": "x", "t/sub/deeper/z.txt": "x"}
    entries = set(tree) | {p.rsplit("/", k)[0] for p in tree for k in range(1, p.count("/") + 1)}     # files and directories
    for pats in (["t/*.txt"], ["t/a?.txt"], ["t/*/*.txt", "t/*.csv"], ["t/nothing*"], ["t/[ab]1.*"],
                 ["t/*"], ["t/s*"], ["t/*/*"], ["t/su?", "t/sub/deeper/*"]):     # patterns that (also) match directories
        simple.append(("glob", dict(op="glob", patterns=pats), tree, pats))
    lines = ["alpha", "beta gamma", "", "delta"]
    simple.append(("f2p", dict(op="f2p", path="in/params.txt"), {"in/params.txt": "".join(l + "\n" for l in lines)}, lines))
    simple.append(("c2p", dict(op="c2p", command="printf 'p1\\np2\\np 3\\n'"), {}, ["p1", "p2", "p 3"]))
    # unusual output: nothing at all, blank first / last lines, indentation
    simple.append(("c2p", dict(op="c2p", command="true"), {}, []))
    simple.append(("c2p", dict(op="c2p", command="echo; echo foo; echo bar"), {}, ["", "foo", "bar"]))
    simple.append(("c2p", dict(op="c2p", command="echo '  foo'; echo 'bar  '; echo"), {}, ["  foo", "bar  ", ""]))
    simple.append(("f2p", dict(op="f2p", path="in/p2.txt"), {"in/p2.txt": "\n  indented\nlast  \n\n"}, ["", "  indented", "last  ", ""]))
    simple.append(("f2p", dict(op="f2p", path="in/p3.txt"), {"in/p3.txt": ""}, []))
    # last line without a trailing newline; a single unterminated line; CRLF is not special
    simple.append(("f2p", dict(op="f2p", path="in/p4.txt"), {"in/p4.txt": "alpha\nbeta\ngamma"}, ["alpha", "beta", "gamma"]))
    simple.append(("f2p", dict(op="f2p", path="in/p5.txt"), {"in/p5.txt": "only"}, ["only"]))
    simple.append(("c2p", dict(op="c2p", command="printf 'x\\ny'"), {}, ["x", "y"]))
    def two(j):
        return j, run_comp(j[1], j[2], bufsize=2)
    for (kind, case, files, want), res in pmap(two, simple, workers=8):
        chk.evaluations += 1
        replay = dict(kind=kind, case=case)
        if res["timeout"] or res["rc"] != 0 or res["result"] is None:
            chk.violation("%s failed / hung: rc=%s %s" % (kind, res["rc"], res["err"][-200:]), replay); continue
        got = [t.get("in") for t in (res["result"].get("tuples") or [])]
        if kind == "concat":
            content = res["dir_files"].get("res/cat.txt")
            exp = "".join(files[p] + "\n" for p in want)
            if content != exp or got != ["res/cat.txt"]:
                chk.violation("Concatenator: output is not every input's content once in arrival order (inputs %s): %r" % (want, (content or "")[:120]), replay)
        elif kind == "glob":
            exp = []
            for pat in want:
                exp += sorted(p for p in entries if __import__("fnmatch").fnmatch(p, pat) and p.count("/") == pat.count("/"))
            if got != exp:
                chk.violation("FileGlobber with %s emitted %s, expected %s" % (want, got, exp), replay)
        else:
            if got != list(want):
                chk.violation("%s emitted %s, expected %s in this order" % (kind, got, list(want)), replay)
        chk.nontrivial.add("%s:%s" % (kind, json.dumps(case)[:80]))
    # components inside a partial run (RunTo): an out-port of a source / combinator that ALSO feeds a process outside the run set still emits its
    # whole stream to the processes that do run - more items than the buffer of the cut connection holds
    import flowcheck as fc, zoo
    from zoo import src, psrc, cmd, E
    build("wfdriver")
    cuts = [dict(name="SRCCUT", max=2, bufsize=2, procs=[src("s", zoo.items(7)), cmd("want", ["in"]), cmd("other", ["in"])],
                 edges=[E("s.out", "want.in"), E("s.out", "other.in")], mode="runto", targets=["want"]),
            dict(name="FCCUT", max=2, bufsize=2, procs=[src("s1", zoo.items(3, "a")), src("s2", zoo.items(2, "b")), dict(name="fc", kind="fcomb", ins=["x", "y"]),
                                                         cmd("j", ["x", "y"]), cmd("other", ["in"])],
                 edges=[E("s1.out", "fc.x"), E("s2.out", "fc.y"), E("fc.x>", "j.x"), E("fc.y>", "j.y"), E("fc.y>", "other.in")], mode="runto", targets=["j"]),
            dict(name="PCCUT", max=2, bufsize=1, procs=[psrc("xs", ["x1", "x2", "x3"]), psrc("ys", ["y1", "y2"]), dict(name="pc", kind="pcomb", params=["x", "y"]),
                                                         cmd("a", [], ["out"], ["p", "q"]), cmd("other", [], ["out"], ["p"])],
                 edges=[], pedges=[E("xs.out", "pc.x"), E("ys.out", "pc.y"), E("pc.x>", "a.p"), E("pc.y>", "a.q"), E("pc.y>", "other.p")], mode="runto", targets=["a"])]
    def cut(inst):
        exp = fc.expected(inst)
        return inst, exp, fc.real_runs(inst, [dict(env={}, bufsize=inst["bufsize"], timeout=25), dict(env={"VERIF_JITTER": "11"}, bufsize=1, timeout=25)])
    for inst, exp, rrs in pmap(cut, cuts, workers=3):
        for rr in rrs:
            chk.evaluations += 1
            replay = dict(instance=inst, variant=rr.variant)
            got = set(final_ids(rr.snapshot))
            if rr.timeout or rr.deadlock:
                chk.violation("%s: partial run to %s did not finish - the component emitted only part of its stream (%d of %d outputs written)"
                              % (inst["name"], inst["targets"], len(got & set(exp["files"])), len(exp["files"])), replay)
            elif rr.rc != 0 or not rr.completed:
                chk.violation("%s: partial run to %s failed: rc=%s %s" % (inst["name"], inst["targets"], rr.rc, rr.stderr[-160:].replace("\n", " | ")), replay)
            elif got != set(exp["files"]):
                chk.violation("%s: partial run to %s: outputs %s, expected %s" % (inst["name"], inst["targets"], sorted(got)[:8], sorted(exp["files"])[:8]), replay)
        chk.nontrivial.add("component-in-partial-run:" + inst["name"])
    # FileSplitter and Concatenator as process kinds of Flow.tla inside workflows: FlowTrace accepts the recorded runs, the parts of every file
    # concatenate back to it, the concatenated file holds every input once in arrival order
    inflow = [zoo.ZSPL(n=3, buf=1), zoo.ZSPL(n=4, lines=2), zoo.ZSPL(n=0), zoo.ZSPLT(n=2, lines=1), zoo.ZSPLT(n=3, lines=2, buf=1), zoo.ZCAT(n=4, buf=1), zoo.ZCAT(n=3, two=True)]
    def flowrun(inst):
        exp = fc.expected(inst)
        rrs = fc.real_runs(inst, [dict(env={}, bufsize=inst["bufsize"], timeout=25), dict(env={"VERIF_JITTER": "13"}, bufsize=1, timeout=25)])
        good = [r for r in rrs if not (r.timeout or r.deadlock) and r.rc == 0 and r.completed]
        return inst, exp, rrs, (fc.validate_traces(inst, exp, good)[0] if good else None)
    for inst, exp, rrs, det in pmap(flowrun, inflow, workers=5):
        label = "%s (%d source files)" % (inst["name"], len(inst["procs"][0]["items"]))
        for rr in rrs:
            chk.evaluations += 1
            replay = dict(instance=inst, variant=rr.variant)
            if rr.timeout or rr.deadlock or rr.rc != 0 or not rr.completed:
                chk.violation("%s did not complete: rc=%s %s" % (label, rr.rc, rr.stderr[-160:].replace("\n", " | ")), replay); continue
            got, want = set(final_ids(rr.snapshot)), set(exp["files"]) | set(exp.get("catfiles", []))
            if got != want:
                chk.violation("%s: outputs %s, expected %s" % (label, sorted(got)[:8], sorted(want)[:8]), replay)
            if inst["name"] == "ZSPL":
                for it in inst["procs"][0]["items"]:
                    # what the consumer of each part read (its output = BEGIN line + the part + END line), in part order
                    parts = sorted((p for p in rr.snapshot if re.match(r"o/b\.out_%s\.txt\.split_\d+\.txt$" % re.escape(it), p)), key=lambda p: int(p[:-4].rsplit("_", 1)[1]))
                    back = "".join("".join((rr.snapshot[p].get("text") or "").splitlines(True)[1:-1]) for p in parts)
                    if back != "SRC %s\n" % it:
                        chk.violation("FileSplitter inside a workflow: the parts of in/%s.txt, as read by their consumers %s, concatenate to %r" % (it, parts, back[:80]), replay)
            if inst["name"] == "ZSPLT":
                for it in inst["procs"][0]["items"]:
                    parts = sorted((p for p in rr.snapshot if re.match(r"o/b\.out_a\.out_%s\.txt\.split_\d+\.txt$" % re.escape(it), p)), key=lambda p: int(p[:-4].rsplit("_", 1)[1]))
                    back = "".join("".join((rr.snapshot[p].get("text") or "").splitlines(True)[1:-1]) for p in parts)
                    whole = rr.snapshot.get("o/a.out_%s.txt" % it, {}).get("text")
                    if back != whole:
                        chk.violation("FileSplitter behind a task: the parts of o/a.out_%s.txt, as read by their consumers %s, concatenate to %r, the file is %r" % (it, parts, back[:80], (whole or "")[:80]), replay)
                    lim = int(inst["procs"][2]["arg"])
                    long = [p for p in parts if len((rr.snapshot[p].get("text") or "").splitlines()) - 2 > lim]
                    if long:
                        chk.violation("FileSplitter behind a task: parts longer than %d lines: %s" % (lim, long), replay)
            if inst["name"] == "ZCAT":
                order = [ev["path"] for ev in rr.events if ev["ev"] == "send.begin" and ev["to"] == "cc.in"]
                wantc = "".join((rr.snapshot.get(p, {}).get("text") or "") + "\n" for p in order)      # the component ends every input with a newline of its own
                if (rr.snapshot.get("o/all.txt", {}).get("text") or "") != wantc:
                    chk.violation("Concatenator inside a workflow: o/all.txt is not every input's content once in arrival order %s" % order, replay)
        if det is not None:
            if det.error: chk.undecided.append("FlowTrace on %s: %s" % (label, det.error[-200:]))
            else:
                chk.add_tlc(det)
                if det.rejected:
                    print("DRIFT: FlowTrace rejected a recorded run of %s at line %d: %s" % (label, det.rejected[0], det.rejected[1][:200]), flush=True)
                    chk.extra["drift"] = chk.extra.get("drift", 0) + 1
                elif det.ok: chk.traces += len(rrs)
        chk.nontrivial.add("component-as-flow-kind:%s:%d" % (inst["name"], len(inst["procs"][0]["items"])))
    chk.sample(dict(kind="component-cases", exported_by_tlc=len(cases), replayed=len(jobs) + len(simple), examples=[j[1] for j in jobs[:3]]))
    chk.extra["exhaustive"] = True
    return chk.finish()
