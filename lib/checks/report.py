"""C20: audit report conversion is lossless.
AuditReport.tla states the flattening (collect the lineage by ID, order by start time with the ID as tie-break) and the
property (every task exactly once, non-decreasing start time); TLC enumerates every audit DAG of up to N records incl.
shared ancestors, ties and zero times and exports them as audit trees; the real CLI (audit2html / audit2tex / audit2bash,
built from /repo) converts each tree and the listings are parsed back. Generated Bash scripts of real runs are executed in
a directory holding only the source files and the re-created file is compared byte by byte."""
import random, json, os, re, subprocess, shutil, time
from vlib import *
import zoo, flowcheck as fc
from . import register
import findings

def report_cases(n, keybytime=False):
    cfg = "CONSTANTS N = %d\n Times = {0,1,2}\n KeyByTime = %s\nSPECIFICATION Spec\nINVARIANTS C20_EachOnce C20_Ordered Export\n" % (n, "TRUE" if keybytime else "FALSE")
    r = run_tlc("AuditReport", "a.cfg", cfgtext=cfg, workers=4, timeout=900, heap="6g")
    cases = [json.loads(json.loads('"' + m.group(1) + '"')) for m in re.finditer(r'^"CASE (.*)"$', r.out, re.M)]
    return r, cases

BASE = "2026-01-02T03:04:%02d.%03d000000Z"
ZERO = "0001-01-01T00:00:00Z"
def to_audit(t, n, leaf_sources, zero_real=False):
    is_src = leaf_sources and not t["ups"] and t["start"] == 0 and t["id"] != n
    rec = dict(ID="id%02dx%s" % (t["id"], "q" * 14), ProcessName="" if is_src else "proc_%d" % t["id"],
               Command="" if is_src else "tool%d --in x_%d > out_%d.txt" % (t["id"], t["id"], t["id"]),
               Params={} if is_src else {"k%d" % t["id"]: "v%d" % t["id"]}, Tags={} if is_src else {"tag%d" % t["id"]: "t%d" % t["id"]},
               StartTime=ZERO if (is_src or (zero_real and t["start"] == 0)) else BASE % (10 + t["start"], 0),
               FinishTime="0001-01-01T00:00:00Z" if is_src else BASE % (10 + t["finish"], 0),
               ExecTimeNS=-1 if is_src else (t["finish"] - t["start"]) * 10**9,
               OutFiles={} if is_src else {"out": "out_%d.txt" % t["id"]},
               Upstream={"out_%d.txt" % u["id"]: to_audit(u, n, leaf_sources, zero_real) for u in t["ups"]})
    return rec

def collect(rec, acc):
    acc[rec["ID"]] = rec
    for u in rec["Upstream"].values(): collect(u, acc)
    return acc

JUNK = "".join("STALE-LINE-OF-AN-EARLIER-REPORT %d\n" % i for i in range(4000))      # an earlier, longer report at the same path
def convert(cli, d, fmt):
    open(os.path.join(d, "out." + fmt), "w").write(JUNK)
    p = subprocess.run([cli, "audit2" + ("bash" if fmt == "sh" else fmt), "root.txt.audit.json", "out." + fmt], cwd=d, capture_output=True, text=True, timeout=60)
    try: return p.returncode, open(os.path.join(d, "out." + fmt)).read()
    except FileNotFoundError: return p.returncode, ""

def listing(fmt, text):
    if fmt == "html": return [m.group(2) for m in re.finditer(r'<strong>(.*?)</strong> / <a name="(.*?)"', text)]
    if fmt == "tex": return [m.group(1) for m in re.finditer(r'^ID: & (\S+) \\\\', text, re.M)]
    if fmt == "sh": return [m.group(1) for m in re.finditer(r"^proc=\$\(printf '%-32s' \"(.*?)\"\)", text, re.M)]

@register("C20")
def check_C20(tier):
    chk = Check("C20", tier)
    chk.rule = ("AuditReport.tla: every DAG of <= N records with start times from {0,1,2} (ties, zero times, shared ancestors, an earlier task finishing later), "
                "listing = each record once in non-decreasing start order; exported trees converted by the real audit2html / audit2tex / audit2bash and parsed back "
                "(ids or process names in order, command, params, tags); Bash scripts generated from real runs re-executed in a sources-only directory, bytes "
                "compared; non-trivial = distinct trees with >= 3 records")
    thorough = tier == "thorough"
    rng = random.Random(seed() * 61 + 20)
    cli = build_repo_bin("scipipe", "./cmd/scipipe", tags="verif")
    r, cases = report_cases(4 if thorough else 3)
    rk, _ = report_cases(3, keybytime=True)
    if r.error or not cases:
        chk.undecided.append("AuditReport.tla: %s" % (r.error or "no cases")[-300:]); return chk.finish()
    chk.add_tlc(r); chk.add_tlc(rk)
    if r.violated: chk.undecided.append("AuditReport.tla violates %s" % r.violated)
    if not rk.violated: chk.undecided.append("the transcription of the map-keyed-by-time flattening (F6) is not refuted: invariant vacuous?")
    else: chk.extra["weak_variants_refuted"] = ["KeyByTime -> " + rk.violated]
    pick = cases if len(cases) <= 400 else rng.sample(cases, 700 if thorough else 300)
    if not thorough:
        r4, c4 = report_cases(4)
        chk.add_tlc(r4)
        pick = pick + rng.sample(c4, min(len(c4), 150))
    def one(c):
        d = scratch("c20")
        try:
            # three renderings of model time 0: an ordinary time stamp, source-file placeholders, or tasks whose start time is Go's zero time
            mode = rng.choice(["plain", "sources", "zero", "zero"])
            root = to_audit(c["tree"], c["n"], mode == "sources", mode == "zero")
            json.dump(root, open(os.path.join(d, "root.txt.audit.json"), "w"), indent=4)
            recs = collect(root, {})
            outs = {fmt: convert(cli, d, fmt) for fmt in ("html", "tex", "sh")}
            return c, recs, outs
        finally:
            rmtree(d)
    for c, recs, outs in pmap(one, pick, workers=16):
        chk.evaluations += 1
        tasks = {i: r_ for i, r_ in recs.items() if r_["ProcessName"]}
        if len(recs) >= 3: chk.nontrivial.add(json.dumps(c["tree"], sort_keys=True))
        for fmt, (rc, text) in outs.items():
            replay = dict(tree=c["tree"], format=fmt, output=text[-3000:] if fmt == "sh" else None)
            if rc != 0 or not text:
                chk.violation("audit2%s failed (rc=%s) on a generated audit tree" % (fmt if fmt != "sh" else "bash", rc), replay); continue
            if "STALE-LINE-OF-AN-EARLIER-REPORT" in text:
                chk.violation("audit2%s does not replace an existing (longer) report at the output path: stale lines survive" % (fmt if fmt != "sh" else "bash"), replay); continue
            lst = listing(fmt, text)
            if fmt == "sh":
                names = [x for x in lst if x]
                want = sorted(t["ProcessName"] for t in tasks.values())
                if sorted(names) != want:
                    chk.violation("audit2bash does not list every task of the lineage exactly once: listed %s, lineage %s" % (names, want), replay); continue
                order = [next(t for t in tasks.values() if t["ProcessName"] == nm) for nm in names]
            else:
                ids = [x for x in lst if x in tasks]
                if sorted(ids) != sorted(tasks):
                    chk.violation("audit2%s does not list every task of the lineage exactly once: listed %s, lineage %s" % (fmt, [i[:4] for i in lst], sorted(i[:4] for i in tasks)), replay); continue
                order = [tasks[i] for i in ids]
            starts = [t["StartTime"] for t in order]
            if starts != sorted(starts):
                chk.violation("audit2%s does not list the tasks in start-time order: %s" % (fmt if fmt != "sh" else "bash", [(t["ProcessName"], t["StartTime"][17:19], t["FinishTime"][17:19]) for t in order]), replay); continue
            for t in tasks.values():
                cmdtxt = t["Command"] if fmt != "tex" else t["Command"].replace("_", "\\_")
                if cmdtxt not in text:
                    chk.violation("audit2%s lost the command of task %s" % (fmt, t["ProcessName"]), replay); break
                if fmt in ("html", "tex"):
                    k, v = list(t["Params"].items())[0]; tk, tv = list(t["Tags"].items())[0]
                    if (fmt == "html" and ("%s: %s" % (k, v) not in text or "%s: %s" % (tk, tv) not in text)) or (fmt == "tex" and ("%s=%s" % (k, v) not in text or "%s=%s" % (tk, tv) not in text)):
                        chk.violation("audit2%s lost parameters / tags of task %s" % (fmt, t["ProcessName"]), replay); break
    # ---- Bash re-creation from real runs ------------------------------------------------------
    build("wfdriver")
    def recreate(inst, label, remove_then_rerun=None):
        """remove_then_rerun: files (and their audit files) deleted after a first complete run, then the workflow is run again:
        the records converted are those of a resumed run"""
        d = scratch("c20w"); d2 = scratch("c20r")
        try:
            prepare_dir(inst, d)
            rr = run_real(inst, d, timeout=60)
            if rr.rc != 0 or not rr.completed:
                chk.undecided.append("workflow for bash re-creation failed: %s" % rr.stderr[-200:]); return
            if remove_then_rerun:
                time.sleep(0.05)
                for f in remove_then_rerun:
                    for suf in ("", ".audit.json"):
                        try: os.remove(os.path.join(d, f + suf))
                        except FileNotFoundError: pass
                rr = run_real(inst, d, timeout=60)
                if rr.rc != 0 or not rr.completed:
                    chk.undecided.append("re-run for bash re-creation failed: %s" % rr.stderr[-200:]); return
            outs = [p for p in rr.snapshot if p.endswith(".txt") and p + ".audit.json" in rr.snapshot and "/" not in p]
            for target in sorted(outs):
                chk.evaluations += 1
                open(os.path.join(d, "recreate.sh"), "w").write(JUNK)
                p = subprocess.run([cli, "audit2bash", target + ".audit.json", "recreate.sh"], cwd=d, capture_output=True, text=True)
                script = open(os.path.join(d, "recreate.sh")).read()
                # listing of the real record: every task of the lineage (distinct by process and command) exactly once, in all three formats
                from collections import Counter
                def walk(rec, acc):
                    if rec.get("Command"): acc.add((rec.get("ProcessName"), rec.get("Command")))
                    for u in (rec.get("Upstream") or {}).values(): walk(u, acc)
                    return acc
                try: lineage = walk(json.load(open(os.path.join(d, target + ".audit.json"))), set())
                except (OSError, ValueError): lineage = None
                if lineage is not None:
                    want_names = Counter(n for n, _ in lineage)
                    for fmt in ("sh", "html", "tex"):
                        if fmt == "sh": text = script
                        else:
                            subprocess.run([cli, "audit2" + fmt, target + ".audit.json", "rep." + fmt], cwd=d, capture_output=True, text=True)
                            try: text = open(os.path.join(d, "rep." + fmt)).read()
                            except OSError: text = ""
                        if fmt == "sh": got_names = Counter(x for x in listing("sh", text) if x)
                        else: got_names = Counter(pn for pn, cm in lineage for _ in range(text.count(cm if fmt == "html" else cm.replace("_", "\\_"))))
                        if got_names != want_names:
                            chk.violation("audit2%s of %s (%s) does not list every task of the lineage exactly once: listed %s, lineage %s"
                                          % ("bash" if fmt == "sh" else fmt, target, label, dict(got_names), dict(want_names)), dict(instance=inst, format=fmt)); break
                rmtree(d2); os.makedirs(os.path.join(d2, "in"))
                for f in os.listdir(os.path.join(d, "in")): shutil.copy(os.path.join(d, "in", f), os.path.join(d2, "in", f))
                env = dict(os.environ, VERIF_HELPER=os.path.join(HARNESS, "cmdhelper.sh")); env.pop("VERIF_CMDLOG", None); env.pop("VERIF_CTL", None)
                open(os.path.join(d2, "recreate.sh"), "w").write(script)
                q = subprocess.run(["bash", "recreate.sh"], cwd=d2, env=env, capture_output=True, text=True, timeout=60)
                want = rr.snapshot[target]["text"]
                try: got = open(os.path.join(d2, target)).read()
                except FileNotFoundError: got = None
                if got != want:
                    chk.violation("the Bash script generated for %s (%s) does not re-create the file byte-identically: %r vs %r; stderr %s"
                                  % (target, label, (got or "")[:80], want[:80], q.stderr[-200:].replace("\n", " | ")), dict(instance=inst, script=script[-2500:]))
                else:
                    chk.nontrivial.add("recreate:%s:%s" % (label, target))
        finally:
            rmtree(d); rmtree(d2)
    w1 = zoo.Z1(n=2); w1["name"] = "RC1"
    for p in w1["procs"]:
        if p["kind"] == "cmd": p["outdir"] = "./"
    recreate(w1, "chain with parameters and a two-output task")
    w2 = dict(name="RC2", max=2, bufsize=2,
              procs=[zoo.src("s", ["1", "2"]), dict(name="a", kind="cmd", ins=["in"], outs=["out"], outdir="./"),
                     dict(name="m", kind="cmd", ins=["x"], outs=["out"], outpaths={"out": "./m_{i:x|basename}"},
                          arg="cat {i:x} > {o:out} && cat {i:x|%.txt}.txt >> {o:out} && cat ../in/1.txt >> {o:out}")],
              edges=[zoo.E("s.out", "a.in"), zoo.E("a.out", "m.x")])
    recreate(w2, "in-path with a modifier and a source file named literally in the command")
    w3 = zoo.Z3(n=2); w3["name"] = "RC3"
    for p in w3["procs"]:
        if p["kind"] == "cmd": p["outdir"] = "./"
    recreate(w3, "diamond: shared source reached through two paths")
    # commands that are fine under the options scipipe runs them with (plain bash -c): a pipeline whose first stage exits non-zero,
    # a ';' list with a failing earlier command, an unset variable
    w4 = dict(name="RC4", max=2, bufsize=2,
              procs=[zoo.src("s", ["1", "2"]),
                     dict(name="g", kind="cmd", ins=["in"], outs=["out"], outpaths={"out": "./g_{i:in|basename}"}, arg="grep zebra-not-there {i:in} | wc -l > {o:out}"),
                     dict(name="h", kind="cmd", ins=["in"], outs=["out"], outpaths={"out": "./h_{i:in|basename}"},
                          arg="false; echo \"v=${VERIF_SURELY_UNSET}.\" > {o:out}; cat {i:in} >> {o:out}")],
              edges=[zoo.E("s.out", "g.in"), zoo.E("g.out", "h.in")])
    # a joined in-port: every member of the sub-stream is an ancestor of the joined task
    w5 = dict(name="RC5", max=2, bufsize=4,
              procs=[zoo.src("s", ["1", "2", "3"]), dict(name="a", kind="cmd", ins=["in"], outs=["out"], outdir="./"), dict(name="ss", kind="substream"),
                     dict(name="cat", kind="cmd", ins=["in"], outs=["out"], joins={"in": " "}, outpaths={"out": "./merged.txt"}, arg="cat {i:in|join: } > {o:out}")],
              edges=[zoo.E("s.out", "a.in"), zoo.E("a.out", "ss.in"), zoo.E("ss.substream", "cat.in")])
    recreate(w5, "joined in-port fed by a sub-stream of three files")
    # both outputs of one task end in the same file's lineage (the task must be listed once)
    w6 = dict(name="RC6", max=2, bufsize=2,
              procs=[zoo.src("s", ["1", "2"]), dict(name="sp", kind="cmd", ins=["in"], outs=["o1", "o2"], outdir="./"), dict(name="up", kind="cmd", ins=["x"], outs=["out"], outdir="./"),
                     dict(name="mg", kind="cmd", ins=["l", "r"], outs=["out"], outdir="./")],
              edges=[zoo.E("s.out", "sp.in"), zoo.E("sp.o1", "up.x"), zoo.E("up.out", "mg.l"), zoo.E("sp.o2", "mg.r")])
    recreate(w6, "two outputs of one task reach the same file through different paths")
    # a diamond plus late side consumers of the intermediate files (they write their records after the join did)
    w7 = dict(name="RC7", max=4, bufsize=2,
              procs=[zoo.src("s", ["1"]), dict(name="first", kind="cmd", ins=["in"], outs=["out"], outdir="./"),
                     dict(name="left", kind="cmd", ins=["x"], outs=["out"], outdir="./"), dict(name="right", kind="cmd", ins=["x"], outs=["out"], outdir="./"),
                     dict(name="join", kind="cmd", ins=["l", "r"], outs=["out"], outdir="./"),
                     dict(name="lateleft", kind="cmd", ins=["x"], outs=["out"], outdir="./"), dict(name="lateright", kind="cmd", ins=["x"], outs=["out"], outdir="./")],
              edges=[zoo.E("s.out", "first.in"), zoo.E("first.out", "left.x"), zoo.E("first.out", "right.x"), zoo.E("left.out", "join.l"), zoo.E("right.out", "join.r"),
                     zoo.E("left.out", "lateleft.x"), zoo.E("right.out", "lateright.x")],
              ctl={"lateleft.sleep": "0.6", "lateright.sleep": "0.6"})
    recreate(w7, "diamond with late side consumers of the intermediate files")
    # records loaded from a resumed run: the first and the last file of a chain are removed (with their audit files) and produced again,
    # the file in the middle is kept
    w8 = dict(name="RC8", max=1, bufsize=2,
              procs=[zoo.src("s", ["1"]), dict(name="a", kind="cmd", ins=["in"], outs=["out"], outdir="./"), dict(name="b", kind="cmd", ins=["x"], outs=["out"], outdir="./"),
                     dict(name="c", kind="cmd", ins=["x"], outs=["out"], outdir="./")],
              edges=[zoo.E("s.out", "a.in"), zoo.E("a.out", "b.x"), zoo.E("b.out", "c.x")])
    recreate(w8, "chain resumed after its first and last file were removed", remove_then_rerun=["a.out_1.txt", "c.out_b.out_a.out_1.txt"])
    recreate(w4, "pipeline with a failing first stage, ';' list with a failing command, unset variable")
    # in-paths that are not blank-delimited words of the command: after a redirection operator, as an option value, quoted, joined with a comma
    w9 = dict(name="RC9", max=2, bufsize=4,
              procs=[zoo.src("s", ["1", "2"]),
                     dict(name="u", kind="cmd", ins=["in"], outs=["out"], outpaths={"out": "./u_{i:in|basename}"}, arg="tr a-z A-Z <{i:in} >{o:out}"),
                     dict(name="d", kind="cmd", ins=["in"], outs=["out"], outpaths={"out": "./d_{i:in|basename}"}, arg="dd if={i:in} of={o:out} 2>/dev/null"),
                     dict(name="q", kind="cmd", ins=["in"], outs=["out"], outpaths={"out": "./q_{i:in|basename}"}, arg="cat \"{i:in}\" > {o:out}; echo q >> {o:out}"),
                     dict(name="ss", kind="substream"),
                     dict(name="cat", kind="cmd", ins=["in"], outs=["out"], joins={"in": ","}, outpaths={"out": "./merged9.txt"},
                          arg="cat $(echo {i:in|join:,} | tr , ' ') > {o:out}")],
              edges=[zoo.E("s.out", "u.in"), zoo.E("u.out", "d.in"), zoo.E("d.out", "q.in"), zoo.E("q.out", "ss.in"), zoo.E("ss.substream", "cat.in")])
    recreate(w9, "in-paths after a redirection operator, as an option value, inside quotes and joined with a comma")
    chk.sample(dict(kind="audit-trees", exported_by_tlc=len(cases), converted=len(pick), example=pick[0]["tree"] if pick else None))
    return chk.finish()
