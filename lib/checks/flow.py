"""C04, C05, C08 (and the flow part of C02, C06, C09, C16): Flow.tla closed-model checking,
trace validation of real runs against FlowTrace.tla / Monitor.tla, Expected(G) comparison."""
import random, json, os, time
from vlib import *
import zoo, flowcheck as fc
from . import register
import findings

def run_flow_check(pid, tier, own, closed_cases, real_cases, gen=0, gen_kw=None, weak_cases=(), nvar=4,
                   liveness_below=20000, rule="", assumptions=(), extra_real=None, post=None):
    chk = Check(pid, tier)
    chk.rule = rule
    chk.assumptions = list(assumptions)
    rng = random.Random(seed() * 7919 + sum(map(ord, pid)))
    build("wfdriver")
    # ---- 1. exhaustive closed-model checking of the zoo ------------------------------------
    def mk(c):
        inst = zoo.ZOO[c[0]](**c[1])
        if len(c) > 2:
            inst.update(c[2])
        return inst
    def closed(c):
        inst = mk(c)
        r = fc.closed_model(inst, liveness=True, workers=4, timeout=1500 if tier == "thorough" else 300)
        return c, inst, r
    model_cex = []
    for c, inst, r in pmap(closed, closed_cases, workers=4):
        if r.error:
            chk.undecided.append("closed model %s%s: %s" % (c[0], c[1:], r.error[-200:])); continue
        chk.add_tlc(r)
        chk.evaluations += 1
        if r.ok:
            chk.nontrivial.add("closed:%s:%s" % (c[0], json.dumps(c[1:], sort_keys=True)))
            chk.sample(dict(kind="closed-model", instance=c[0], params=c[1:], distinct_states=r.distinct, generated=r.generated))
        else:
            what = r.violated or ("deadlock" if r.deadlock else "?")
            model_cex.append((c, inst, what, r.trace))
    # ---- 2. weakened variants must fail (vacuity test of the invariants) -------------------
    for name, kw, flag, expect in weak_cases:
        inst = zoo.ZOO[name](**kw)
        r = fc.closed_model(inst, liveness=False, workers=4, timeout=300, weak=flag.split("+"))
        chk.add_tlc(r)
        got = r.violated or ("deadlock" if r.deadlock else None)
        if got is None:
            chk.undecided.append("weakened model %s on %s found no counter-example (expected %s): invariant vacuous?" % (flag, name, expect))
        else:
            chk.sample(dict(kind="weakened-model", flag=flag, instance=name, counterexample=got, last_actions=r.trace[-5:]))
            chk.extra.setdefault("weak_variants_refuted", []).append(flag)
    # ---- 3. real runs of the same instances + generated graphs ------------------------------
    insts = [(c[0], mk(c)) for c in real_cases]
    for i in range(gen):
        g = zoo.gen_graph(rng, name="G%d" % i, **(gen_kw or {}))
        insts.append(("G%d" % i, g))
    # thorough: small generated topologies are also model-checked exhaustively (time-outs are skipped, not judged)
    if tier == "thorough":
        small = []
        for label, g in insts:
            if label.startswith("G"):
                nitems = sum(len(p.get("items", [])) + len(p.get("values", [])) for p in g["procs"])
                ncmd = len([p for p in g["procs"] if p["kind"] == "cmd"])
                if ncmd <= 3 and nitems <= 4: small.append((label, g))
        def gclosed(item):
            label, g = item
            return label, g, fc.closed_model(g, liveness=False, workers=4, timeout=240)
        skipped = 0
        for label, g, r in pmap(gclosed, small[:10], workers=4):
            if r.error == "timeout": skipped += 1; continue
            if r.error: chk.undecided.append("closed model of generated graph %s: %s" % (label, r.error[-200:])); continue
            chk.add_tlc(r); chk.evaluations += 1
            if r.ok:
                chk.nontrivial.add("closed:gen:" + json.dumps(norm_inst(g), sort_keys=True))
                chk.sample(dict(kind="closed-model", instance=label + " (generated)", distinct_states=r.distinct), limit=12)
            else:
                model_cex.append(((label, {}), g, r.violated or ("deadlock" if r.deadlock else "?"), r.trace))
        chk.extra["generated_graphs_model_checked"] = len(small[:10]) - skipped
    for c, inst, what, trace in model_cex:      # model counter-examples are replayed on the real binary
        insts.append(("cex:" + c[0], inst))
    insts += list(extra_real or [])
    def real(item):
        label, inst = item
        exp = fc.expected(inst)
        lrng = random.Random(rng.random())
        if label.startswith("G") and lrng.random() < 0.35 and exp["tasks"] and exp["mergeinsensitive"]:
            # resume shape: the outputs of a random subset of tasks are on disk already
            sub = [t for t in exp["tasks"] if lrng.random() < 0.4 and t["outs"]]
            if sub:
                inst = dict(inst); inst["pre"] = sorted(o for t in sub for o in t["outs"])
                exp = fc.expected(inst)
        cmds = [p["name"] for p in inst["procs"] if p["kind"] in ("cmd", "gofunc")]
        bufs = tuple(b for b in (inst.get("bufsize", 1), 1, 2, 128) if b >= inst.get("minbuf", 1))     # minbuf: documented limits of a component
        vs = fc.jitter_variants(lrng, nvar, bufs=bufs, procs=cmds, fixed_ctl=bool(inst.get("ctl")))
        if inst.get("ctl"):       # timing scenarios keep their own buffer size
            for v in vs: v["bufsize"] = inst.get("bufsize", 1)
        if label.startswith("cex:"):
            vs = [dict(env=v.get("env"), bufsize=inst.get("bufsize", 1), timeout=20) for v in fc.jitter_variants(lrng, 6)]
        rrs = fc.real_runs(inst, vs)
        ok = [rr for rr in rrs if not rr.timeout and not rr.deadlock and not rr.panic]
        det, mon, rows = fc.validate_traces(inst, exp, ok) if ok else (None, None, [])
        return label, inst, exp, rrs, det, mon, len(rows)
    results = pmap(real, insts, workers=8)
    reproduced = set()
    for label, inst, exp, rrs, det, mon, nrows in results:
        chk.evaluations += len(rrs)
        for r in (det, mon):
            if r is not None and not r.error: chk.add_tlc(r)
        if det is not None and det.ok: chk.traces += len([rr for rr in rrs if not rr.timeout])
        before = len(chk.violations) + len(chk.known)
        fc.judge_instance(chk, inst, exp, rrs, det, mon, own, known=findings.match, label=label)
        if len(chk.violations) + len(chk.known) > before and label.startswith("cex:"):
            reproduced.add(label)
        ninst = norm_inst(inst)
        if len(ninst["procs"]) >= 2:
            chk.nontrivial.add("real:" + json.dumps(ninst, sort_keys=True))
        chk.sample(dict(kind="real-runs", instance=label, runs=len(rrs), trace_events=nrows,
                        accepted_by_FlowTrace=bool(det and det.ok), accepted_by_Monitor=bool(mon and mon.ok),
                        wfspec=ninst if label.startswith("G") else inst["name"]), limit=10)
    for c, inst, what, trace in model_cex:
        if "cex:" + c[0] not in reproduced:
            chk.undecided.append("closed model of %s%s: %s (last actions %s) was NOT reproduced on the real binary - model or harness wrong"
                                 % (c[0], c[1:], what, trace[-5:]))
    chk.extra["exhaustive"] = False
    chk.extra["instances_closed"] = ["%s%s" % (c[0], c[1:]) for c in closed_cases]
    if post: post(chk)
    return chk.finish()

QUICK_CLOSED = [("Z1", dict(n=2)), ("Z2", dict(n=2)), ("Z3", dict(n=2)), ("Z4", dict(n=1)), ("Z5", dict(n=3, m=1)),
                ("Z6", dict(n=2)), ("Z7", dict(n=2)), ("Z8", dict(n=2)), ("Z9", dict(n=1)), ("Z10", dict(n=3)),
                ("Z14", dict(n=3)), ("Z15", {}), ("Z16", dict(n=2)), ("Z17", dict(n=3)), ("Z18", dict(n=2)), ("Z19", dict(n=2)),
                ("Z5c", dict(n=3, m=1)), ("Z5c", dict(n=2, m=0)),
                # empty streams: no file source item, no parameter value, one of two ports empty, a leaf driver with nothing to do
                ("Z1", dict(n=0)), ("Z3", dict(n=0)), ("Z5", dict(n=3, m=0)), ("Z6", dict(n=0)), ("Z9", dict(n=0)), ("Z16", dict(n=0)),
                ("Z20", dict(n=3, buf=1)), ("Z21", dict(n=3, buf=1)),
                # combinators inside the dataflow: three-port ParamCombinator, partly consumed ParamCombinator, FileCombinator with independent
                # upstreams and with one shared upstream (at its documented limit: as many items as the buffer holds)
                ("PC3", dict(nx=1, ny=1, nz=2)), ("PC2S", dict(n=2)), ("FC2", dict(n=2, m=2)), ("FCS", dict(n=2, buf=2)),
                # a Concatenator (collect everything, emit one file) between tasks; nothing to collect
                ("ZCAT", dict(n=2)), ("ZCAT", dict(n=0)),
                # a FileSplitter (every item becomes two parts, forwarded as they are written)
                ("ZSPL", dict(n=2)), ("ZSPL", dict(n=0)), ("ZSPLT", dict(n=1, lines=3))]
THOROUGH_CLOSED = QUICK_CLOSED + [("Z1", dict(n=3)), ("Z1", dict(n=3, buf=2)), ("Z2", dict(n=2, buf=2)), ("Z3", dict(n=2, buf=2, mx=1)),
                                  ("Z4", dict(n=2)), ("Z9", dict(n=2)), ("Z13", dict(n=1)), ("Z5b", dict(n=3, m=1)),
                                  ("Z7", dict(n=2, mx=1)), ("Z10", dict(n=4, buf=2, mx=2)), ("Z6", dict(n=3)),
                                  ("ZCAT", dict(n=3, buf=1)), ("ZCAT", dict(n=2, two=True)), ("ZSPL", dict(n=3, buf=1)), ("ZSPL", dict(n=3, lines=2)), ("ZSPLT", dict(n=2, lines=2))]
REAL = [("Z1", dict(n=4)), ("Z2", dict(n=4)), ("Z3", dict(n=4)), ("Z4", dict(n=3)), ("Z5", dict(n=3, m=1)), ("Z6", dict(n=3)),
        ("Z7", dict(n=3)), ("Z8", dict(n=3)), ("Z9", dict(n=3)), ("Z10", dict(n=5)), ("Z13", dict(n=3)), ("Z14", dict(n=4)),
        ("Z15", {}), ("Z16", dict(n=3)), ("Z5b", dict(n=4, m=1)), ("Z5b", dict(n=6, m=1, buf=2)), ("Z17", dict(n=5)),
        # stream lengths 0 and far beyond the small buffer sizes
        ("Z1", dict(n=0)), ("Z3", dict(n=0)), ("Z5", dict(n=3, m=0)), ("Z6", dict(n=0)), ("Z9", dict(n=0)), ("Z16", dict(n=0)), ("Z7", dict(n=0)),
        ("Z10", dict(n=40, mx=4, buf=16)), ("Z3", dict(n=24, mx=4, buf=8)),
        ("Z4T", dict(n=3, mx=3)), ("Z4T", dict(n=2, buf=2)),
        ("PC3", dict(nx=2, ny=3, nz=2)), ("PC3", dict(nx=1, ny=2, nz=3, buf=2)), ("PC2S", dict(n=4, buf=1)), ("PC2S", dict(n=7, buf=2)),
        ("FC2", dict(n=2, m=3)), ("FC2", dict(n=3, m=3, buf=2)), ("FC2", dict(n=0, m=2)), ("FCS", dict(n=2, buf=2), dict(minbuf=2)), ("FCS", dict(n=3, buf=4), dict(minbuf=3)),
        # partially completed earlier runs: outputs of later items exist already
        ("Z1", dict(n=4, mx=3), dict(pre=["a.out_3_w"])), ("Z1", dict(n=4, mx=3), dict(pre=["a.out_2_v", "a.out_4_y"])),
        ("Z3", dict(n=4, mx=3), dict(pre=["a.out_3", "b.out_2"])), ("Z2", dict(n=3), dict(pre=["a.out_2", "a.out_3"]))]
PRE_CLOSED = [("Z1", dict(n=3, mx=2), dict(pre=["a.out_2_v"])), ("Z3", dict(n=2), dict(pre=["a.out_2"]))]

def empty_param_scenario(chk):
    """an EMPTY string is a legal parameter value when the command does not substitute it (here it only appears in the output path):
    the input set it belongs to, and every later one, is processed like any other"""
    inst = dict(name="EMPTYP", max=2, bufsize=2,
                procs=[zoo.src("s", zoo.items(4)),
                       dict(name="a", kind="cmd", ins=["in"], outs=["out"], params=["p"], outpaths={"out": "o/a_{i:in|basename|%.txt}_x{p:p}x.txt"}, arg="cat {i:in} > {o:out}"),
                       dict(name="b", kind="cmd", ins=["x"], outs=["out"], outpaths={"out": "o/b_{i:x|basename}"}, arg="cat {i:x} > {o:out}")],
                edges=[zoo.E("s.out", "a.in"), zoo.E("a.out", "b.x")], feeds=[dict(to="a.p", values=["u", "", "w", "y"])])
    for rr in fc.real_runs(inst, [dict(env={}, bufsize=2, timeout=30), dict(env={"VERIF_JITTER": "13"}, bufsize=1, timeout=30)]):
        chk.evaluations += 1
        got = sorted(p for p in rr.snapshot if p.startswith("o/") and p.endswith(".txt"))
        want = sorted(["o/a_%d_x%sx.txt" % (k, v) for k, v in zip((1, 2, 3, 4), ("u", "", "w", "y"))] + ["o/b_a_%d_x%sx.txt" % (k, v) for k, v in zip((1, 2, 3, 4), ("u", "", "w", "y"))])
        if rr.timeout or rr.deadlock:
            chk.violation("parameter stream containing an empty value: the workflow did not return", dict(instance=inst))
        elif rr.rc != 0 or got != want:
            chk.violation("parameter stream u, '', w, y (value only used in the output path): files %s, expected one task per input set: %s (rc=%s)" % (got, want, rr.rc), dict(instance=inst, stderr=rr.stderr[-300:]))
        else:
            chk.nontrivial.add("empty-parameter-value")

def fanin_close_stress(chk, tier):
    """one in-port with 25 upstreams (24 of them empty sources) that close at practically the same instant, debug logging on:
    the last-closer decision of InPort.CloseConnection must be taken once (closeLock) - repeated many times"""
    procs = [zoo.src("s0", ["1"])] + [zoo.src("e%d" % i, []) for i in range(24)] + [zoo.cmd("m", ["in"])]
    edges = [zoo.E("s0.out", "m.in")] + [zoo.E("e%d.out" % i, "m.in") for i in range(24)]
    inst = dict(name="FANIN", max=2, bufsize=2, procs=procs, edges=edges, debuglog=True)
    def one(k):
        return fc.real_runs(inst, [dict(env={}, bufsize=2, timeout=20)])[0]
    n = 2400 if tier == "thorough" else 800
    bad = [rr for rr in pmap(one, range(n), workers=16) if rr.panic or rr.rc != 0 or not rr.completed or "o/m.out_1.txt" not in rr.snapshot]
    chk.evaluations += n
    if bad:
        rr = bad[0]
        chk.violation("fan-in of 25 upstreams closing together: %d of %d runs failed (%s): the item was not processed exactly once"
                      % (len(bad), n, "panic: " + rr.stderr[-200:].replace("\n", " | ") if rr.panic else "rc=%s" % rr.rc), dict(instance=norm_inst(inst), stderr=rr.stderr[-1500:]))
    else:
        chk.nontrivial.add("fanin-close-stress:%d" % n)

# RunTo / RunToRegex: the run set ends in the middle of the graph, more results than buffer slots on the cut connections
RUNTO_CUTS = [("Z1", dict(n=5, buf=2), dict(mode="runto", targets=["a"])), ("Z3", dict(n=4, buf=1), dict(mode="runto", targets=["a", "b"])),
              ("Z16", dict(n=5, buf=2), dict(mode="runto", targets=["a"])), ("Z2", dict(n=4, buf=1), dict(mode="runto", targets=["b"])),
              ("Z2", dict(n=6, buf=2), dict(mode="runtoprocs", targets=["c"]))]

@register("C04")
def check_C04(tier):
    return run_flow_check("C04", tier, {"C04"}, post=lambda chk: (fanin_close_stress(chk, tier), empty_param_scenario(chk)),
        closed_cases=(THOROUGH_CLOSED if tier == "thorough" else QUICK_CLOSED) + PRE_CLOSED,
        real_cases=REAL + RUNTO_CUTS + [("ZCAT", dict(n=4, buf=2)), ("ZCAT", dict(n=3, buf=1, two=True)), ("ZSPL", dict(n=4, buf=1)), ("ZSPL", dict(n=3, lines=2)), ("ZSPLT", dict(n=3, lines=1, buf=1)), ("ZSPLT", dict(n=2, lines=2))],
        gen=40 if tier == "thorough" else 10, nvar=8 if tier == "thorough" else 4,
        weak_cases=[("Z2", dict(n=1), "SendFirstRemoteOnly", "C04_AtReturn"), ("ZSPL", dict(n=1), "SplitDropLast", "C04_AtReturn")],
        rule="closed: every interleaving of each zoo instance (Flow.tla, Closed=TRUE); real: seeded jittered runs of zoo "
             "and generated acyclic graphs, traces validated by FlowTrace.tla and Monitor.tla, files/contents/execution "
             "counts compared with Expected(G) evaluated by TLC on the same wfspec; non-trivial = distinct instances with >= 2 processes",
        assumptions=["file-set determinism only claimed for merge-insensitive graphs", "<= 1 process without out-ports per workflow",
                     "BufSize >= 1", "code between two hooks is atomic w.r.t. the modelled state"])

@register("C05")
def check_C05(tier):
    # the shared upstream emits one result every 50 ms (task i takes i x 50 ms, plenty of slots), so the branch that ends in the
    # sink has results to hand over while the branch of the leaf driver is still being fed
    paced = {"mk:%d.sleep" % i: "%.2f" % (0.05 * i) for i in range(1, 11)}
    extras = [("Z5c", dict(n=3, m=1), dict(ctl={"a.sleep": "0.2"})), ("Z5c", dict(n=4, m=0, buf=2), dict(ctl={"a.sleep": "0.15"})),
              # the same with a port-less leaf as the driver of Run (the sink is not the last to finish): the abandoned upstream must still be waited for
              ("Z5cL", dict(n=3, m=1), dict(ctl={"a.sleep": "0.25"})), ("Z5cL", dict(n=4, m=1, buf=2), dict(ctl={"a.sleep": "0.3"})),
              ("Z18", dict(n=10, buf=1, mx=16), dict(ctl=paced)), ("Z18", dict(n=8, buf=2, mx=16), dict(ctl=paced)),
              ("Z19", dict(n=3), dict(ctl={"a.sleep": "0.1", "b.sleep": "0.1"})), ("Z19", dict(n=4, buf=2)),
              ("Z1", dict(n=3), dict(ctl={"a.extra": "side.log sub/dir/side2.log"})),
              # an extra file that cannot be moved out (a directory of the same name is in the way)
              ("Z1", dict(n=2), dict(ctl={"b.extra": "report"}, mkdirs=["report"])),
              ("Z13", dict(n=4, mx=3)), ("Z13", dict(n=3, mx=4)),
              ("Z20", dict(n=10, buf=2)), ("Z20", dict(n=6, buf=1)), ("Z20", dict(n=12, buf=3, mx=4)),
              ("Z21", dict(n=6, buf=2)), ("Z21", dict(n=5, buf=1)),
              ("ZCAT", dict(n=5, buf=2)), ("ZCAT", dict(n=4, buf=1, two=True)), ("ZCAT", dict(n=0)), ("ZSPL", dict(n=5, buf=1)), ("ZSPL", dict(n=0)), ("ZSPLT", dict(n=4, lines=2, buf=1)),
              # RunTo / RunToRegex: the run set ends in the middle of the graph, more results than buffer slots on the cut connections
              ("Z1", dict(n=5, buf=2), dict(mode="runto", targets=["a"])), ("Z3", dict(n=4, buf=1), dict(mode="runto", targets=["a", "b"])),
              ("Z16", dict(n=5, buf=2), dict(mode="runto", targets=["a"])), ("Z2", dict(n=4, buf=1), dict(mode="runto", targets=["b"]))]
    def post(chk):
        from .slots import shared_output_scenario
        shared_output_scenario(chk, what="two tasks mapping to the same output file compete for one slot: Run never returned")
        fanin_close_stress(chk, tier)
        # a two-port process one of whose streams is EMPTY while the other branch is slow, on a single OS thread (goroutines start late):
        # Run must still wait for the slow branch
        inst = zoo.Z5c(n=2, m=0, mx=2); inst["name"] = "Z5cEMPTY"; inst["ctl"] = {"a.sleep": "0.25"}
        exp = fc.expected(inst)
        def one(k):
            return fc.real_runs(inst, [dict(env={"GOMAXPROCS": "1"}, bufsize=2, timeout=30)])[0]
        nrep = 80 if tier == "thorough" else 40
        for rr in pmap(one, range(nrep), workers=8):
            chk.evaluations += 1
            msgs = [m for prop, m in fc.file_monitor(inst, exp, rr) if prop == "C05"]
            if rr.timeout or rr.deadlock: msgs.append("workflow did not return")
            if msgs:
                chk.violation("empty stream on one port of a two-port process, slow branch on the other (GOMAXPROCS=1): %s" % msgs[0], dict(instance=norm_inst(inst), trace_tail=rr.events[-30:])); break
        else:
            chk.nontrivial.add("early-return-stress:%d" % nrep)
    return run_flow_check("C05", tier, {"C05"}, post=post,
        closed_cases=THOROUGH_CLOSED if tier == "thorough" else QUICK_CLOSED,
        real_cases=REAL + extras, gen=40 if tier == "thorough" else 10, nvar=8 if tier == "thorough" else 4,
        gen_kw=dict(allow_leaf=True),
        weak_cases=[("Z17", dict(n=4), "SpawnAllThenWait", "deadlock"), ("Z9", dict(n=1), "SinkOnlyIfDriver+NoWaitAll", "C05_NoEarly"), ("Z9", dict(n=2), "SinkOnlyIfDriver", "deadlock"),
                    ("Z1", dict(n=2), "CloseBeforeDrain", "C04/C05"), ("Z5c", dict(n=2, m=0), "NoWaitAll", "C05_NoEarly"),
                    ("PC2S", dict(n=2, buf=1), "SinkFileFirst", "deadlock"), ("FC2", dict(n=2, m=2, buf=1), "CombSendSeq", "deadlock")] +
                   ([("Z5b", dict(n=4, m=1), "NoDrain", "deadlock"), ("Z20", dict(n=4, buf=1), "SeqDrain", "deadlock")] if tier == "thorough" else []),
        rule="as C04; additionally TLC deadlock check and <>(returned or failed) under weak fairness on the small instances; "
             "real runs judged by the in-program snapshot at return, leftovers, commands' own end lines and the Go runtime deadlock report",
        assumptions=["streaming workflows are covered by C17", "hang = Go runtime deadlock report or no exit within 40 s for instances whose commands take < 0.1 s"])

@register("C08")
def check_C08(tier):
    return run_flow_check("C08", tier, {"C08"},
        closed_cases=[("Z1", dict(n=3, mx=3)), ("Z7", dict(n=2, mx=2)), ("Z2", dict(n=2)), ("Z4", dict(n=1)), ("Z1", dict(n=3, mx=2), dict(pre=["a.out_2_v"]))] +
                     ([("Z1", dict(n=3, buf=2, mx=3)), ("Z4", dict(n=2)), ("Z3", dict(n=2))] if tier == "thorough" else []),
        real_cases=[("Z1", dict(n=5, mx=4)), ("Z7", dict(n=4, mx=4)), ("Z2", dict(n=4, mx=4)), ("Z4", dict(n=3, mx=3)), ("Z3", dict(n=4, mx=4)),
                    ("Z1", dict(n=4, mx=3), dict(pre=["a.out_3_w"])), ("Z1", dict(n=5, mx=4), dict(pre=["a.out_2_v", "a.out_5_z"])),
                    ("Z3", dict(n=4, mx=3), dict(pre=["a.out_3", "b.out_2"])), ("Z4", dict(n=4, mx=3, buf=1)), ("Z4", dict(n=6, mx=2, buf=2))],
        gen=20 if tier == "thorough" else 6, nvar=8 if tier == "thorough" else 4,
        # streaming out-ports are emitted before their task starts - in arrival order like every other port
        extra_real=[("ST6", dict(name="ST6", max=12, bufsize=4,
                                 procs=[zoo.src("s", zoo.items(6)), dict(name="p", kind="cmd", ins=["in"], outs=["out"], streams=["out"]), zoo.cmd("c", ["in"], ["out"])],
                                 edges=[zoo.E("s.out", "p.in"), zoo.E("p.out", "c.in")]))],
        weak_cases=[("Z1", dict(n=2), "AnyDoneOrder", "C08_Order")],
        rule="closed: tasks finish in every order; real: jittered runs, per-connection send order compared with task creation order "
             "(C08_Order / M_C08_Order on the recorded trace) and per-upstream order through fan-in (C04_Prefix)")
