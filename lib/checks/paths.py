"""C13: a file written at an output placeholder ends up exactly at the declared path.
Paths.tla transcribes TempPath / createDirs / audit write / FinalizePaths over token sequences (character-level
ReplaceAll) with a directory model; TLC enumerates the path grammar, checks that the transcription meets the
property everywhere except on the class F9, and exports every case; each case is replayed as a one-task
workflow on the real binary, the verdict is: real location vs. the location the declared path denotes."""
import random, json, os, re, subprocess, shutil
from vlib import *
from . import register
import findings

def paths_cases(maxsegs):
    cfg = "CONSTANT MaxSegs = %d\nSPECIFICATION Spec\nINVARIANTS C13_OnlyF9 C13_F9Fails Export\n" % maxsegs
    r = run_tlc("Paths", "p.cfg", cfgtext=cfg, workers=4, timeout=900, heap="6g")
    cases = []
    for m in re.finditer(r'^"CASE (.*)"$', r.out, re.M):
        cases.append(json.loads(json.loads('"' + m.group(1) + '"')))
    return r, cases

EXTRAS = ("extra_one.log", "sub/dir/extra_two.log", ".side.log", "sub/.index", "sub/dir/x..y_-z", ".hid/f",
          "deep/er/est/file.log", "zz/yy/late.log", "zz/zlast.log")     # several new directory levels without files in the upper ones
STALE_EXTRAS = ("extra_one.log", "sub/.index")

def run_case(case, incase, driver):
    """one-task workflow: cat {i:in} > {o:out}, plus extra files (nested, dot-leading, dotted names); returns dict(ok, where, detail)"""
    W = scratch("c13")
    try:
        cwd = os.path.join(W, "c1", "c2", "r", "w")
        os.makedirs(cwd)
        def real(pth):      # absolute model paths live under W/abs
            return (W + "/abs/r1/r2/r3" + pth) if pth.startswith("/") else pth
        outp, inp = real(case["path"]), real(incase["path"])
        want_out = os.path.normpath(os.path.join(cwd, outp))
        want_in = os.path.normpath(os.path.join(cwd, inp))
        if want_in == want_out or want_out.startswith(want_in + "/") or want_in.startswith(want_out + "/"):
            inp = "inputs/x.txt"; want_in = os.path.join(cwd, inp)
        # the kernel resolves ".." through directories that exist: create the path as written, not normalised
        os.makedirs(os.path.dirname(os.path.join(cwd, inp)), exist_ok=True)
        os.makedirs(os.path.dirname(want_in), exist_ok=True)
        token = "IN %s -> %s\n" % (incase["path"], case["path"])
        open(want_in, "w").write(token)
        if case["needsdest"]:
            # stated precondition: the destination directory of absolute / parent-relative outputs exists. The kernel resolves ".."
            # through directories that must exist, so for paths that are absolute or START by leaving the working directory the path is
            # created as written; a relative path that starts inside the working directory (a/../x) needs nothing: scipipe creates "a"
            segs = [x for x in outp.split("/") if x not in ("", ".")]
            if outp.startswith("/") or (segs and segs[0] == ".."):
                os.makedirs(os.path.dirname(os.path.join(cwd, outp)), exist_ok=True)
            os.makedirs(os.path.dirname(want_out), exist_ok=True)      # the directory the file finally lives in
        # files with the names of two of the extra files exist already (left by an earlier run): the new ones replace them
        for x in STALE_EXTRAS:
            os.makedirs(os.path.dirname(os.path.join(cwd, x)) or cwd, exist_ok=True)
            open(os.path.join(cwd, x), "w").write("STALE\n")
        before = set()
        for root, ds, fs_ in os.walk(W):
            for f in fs_: before.add(os.path.join(root, f))
        spec = dict(name="C13", max=1, bufsize=1, mode="run", targets=[], patterns=[], edges=[dict(**{"from": "s.out", "to": "a.in"})], pedges=[], feeds=[],
                    procs=[dict(name="s", kind="src", paths=[inp]),
                           dict(name="a", kind="cmd", ins=["in"], outs=["out"], outpaths={"out": outp},
                                arg="cat {i:in} > {o:out} && echo E1 > extra_one.log && mkdir -p sub/dir && echo E2 > sub/dir/extra_two.log"
                                    " && echo E3 > .side.log && echo E4 > sub/.index && echo E5 > sub/dir/x..y_-z && mkdir -p .hid && echo E6 > .hid/f"
                                    " && mkdir -p deep/er/est zz/yy && echo E7 > deep/er/est/file.log && echo E8 > zz/yy/late.log && echo E9 > zz/zlast.log")])
        json.dump(spec, open(os.path.join(cwd, "wf.json"), "w"))
        env = dict(os.environ, SCIPIPE_BUFSIZE="1")
        p = subprocess.run([driver, "wf.json"], cwd=cwd, env=env, capture_output=True, text=True, timeout=60)
        ok = p.returncode == 0 and "WFDRIVER_COMPLETED" in p.stdout
        where = []
        for root, ds, fs_ in os.walk(W):
            for f in fs_:
                full = os.path.join(root, f)
                if full in before: continue
                try:
                    if open(full).read() == token: where.append(full)
                except Exception: pass
        def content(x):
            try: return open(os.path.join(cwd, x)).read()
            except OSError: return None
        extras_ok = all(content(x) == "E%d\n" % (k + 1) for k, x in enumerate(EXTRAS))
        leftovers = [d for d in os.listdir(cwd) if d.startswith("_scipipe_tmp")]
        # the declared path AS WRITTEN opens the file (a/../x needs "a" to exist for the kernel)
        try: written_ok = open(os.path.join(cwd, outp)).read() == token
        except OSError: written_ok = False
        return dict(ok=ok, want=want_out, where=where, extras_ok=extras_ok, leftovers=leftovers, rc=p.returncode, written_ok=written_ok,
                    err=(p.stderr or "")[-300:], rel=lambda x: os.path.relpath(x, W))
    finally:
        rmtree(W)

@register("C13")
def check_C13(tier):
    chk = Check("C13", tier)
    chk.rule = ("Paths.tla enumerates every path of the grammar {abs?} x (<= MaxSegs segments from {a, b, .., ., a.., ..a, ..., __parent__, __parent__a, __fsroot__}) x "
                "{f, __parent__f, f..}; TLC checks transcription = property except on the exported class F9; every case (quick: seeded sample) is replayed as a "
                "one-task workflow (output at the case path, input at another case path, nine extra files), verdict = real location vs normpath(cwd/path); "
                "plus random long paths over [0-9A-Za-z._-] (segments up to 120 chars, depth up to 8, ./ ../ prefixes and inner ./ ../, absolute); "
                "non-trivial = distinct cases whose temp path differs from the declared path or that have >= 1 directory segment")
    chk.assumptions = ["destination directory pre-created for absolute and ..-relative outputs (stated precondition)", "extra files with placeholder-like names are outside the stated quantifier"]
    thorough = tier == "thorough"
    rng = random.Random(seed() * 37 + 13)
    driver = build("wfdriver")
    r, cases = paths_cases(3 if thorough else 2)
    if r.error or not cases:
        chk.undecided.append("Paths.tla: %s" % (r.error or "no cases exported")[-300:]); return chk.finish()
    chk.add_tlc(r)
    if r.violated:
        chk.undecided.append("Paths.tla: the transcription violates %s outside the known class - model or code changed" % r.violated)
    pick = cases if (thorough and len(cases) <= 1500) else rng.sample(cases, min(len(cases), 1500 if thorough else 260))
    # always include the F9 class representatives and the plain shapes
    f9 = [c for c in cases if c["f9"]]
    pick += rng.sample(f9, min(len(f9), 12))
    inputs = [c for c in cases if not c["f9"]]
    jobs = [(c, rng.choice(inputs)) for c in pick]
    # beyond the grammar: random long paths over the whole allowed alphabet (long names, deep nesting, ./ and ../ prefixes, absolute);
    # segments ending in ".." are left to the grammar (class F9)
    def rand_path():
        alpha = "0123456789ABCDEFGHIJKLMNOPQRSTUVWXYZabcdefghijklmnopqrstuvwxyz._-"
        def seg():
            while True:
                g = "".join(rng.choice(alpha) for _ in range(rng.choice([1, 2, 3, 8, 40, 120])))
                if g not in (".", "..") and not g.endswith("..") and not g.startswith("-") and "__parent__" not in g and "__fsroot__" not in g: return g
        segs = [seg() for _ in range(rng.choice([0, 1, 2, 4, 7]))]
        pre = rng.choice(["", "", "./", "../", "../../", "./../", "/", "/"])
        mid = rng.choice(["", "", "", "./", "../"]) if segs else ""
        if mid and len(segs) >= 2: segs.insert(rng.randrange(1, len(segs)), mid.rstrip("/"))
        path = pre + "/".join(segs + [seg()])
        needs = path.startswith("/") or ".." in path.split("/")
        return dict(path=path, needsdest=needs, f9=False, temppath="?", random=True)
    rjobs = [(rand_path(), rand_path()) for _ in range(300 if thorough else 50)]
    jobs += rjobs
    def one(j):
        try:
            return j, run_case(j[0], j[1], driver)
        except subprocess.TimeoutExpired:
            return j, dict(ok=False, timeout=True, where=[], want="?", extras_ok=False, leftovers=[], rc=-1, err="timeout", written_ok=False)
    for (c, ic), res in pmap(one, jobs, workers=16):
        chk.evaluations += 1
        at_declared = res["want"] in res["where"]
        elsewhere = [w for w in res["where"] if w != res["want"]]
        good = res["ok"] and at_declared and not elsewhere and res["extras_ok"] and not res["leftovers"] and res.get("written_ok", True)
        if c["temppath"] != c["path"] or "/" in c["path"].strip("/"):
            chk.nontrivial.add(c["path"])
        if good:
            if c["f9"]:
                chk.notes.append("F9-class path %s works on the real binary (transcription pessimistic)" % c["path"])
            continue
        msg = ("output declared as %r (input %r): run ok=%s rc=%s, file at declared path=%s (path as written opens it: %s), copies elsewhere=%s, extra files moved=%s, temp dirs left=%s %s"
               % (c["path"], ic["path"], res["ok"], res["rc"], at_declared, res.get("written_ok"), [os.path.basename(w) for w in elsewhere][:3], res["extras_ok"], res["leftovers"][:1], res["err"][-160:].replace("\n", " | ")))
        f9like = c["f9"] or (re.search(r"(?:[^/.]\.\.|\.\.\.)/", c["path"]) and not res["ok"])     # a directory segment ending in ".." that is not ".." itself
        if f9like and findings.active("F9"):
            chk.known_finding("F9", "a not-yet-existing directory segment ending in '..' (character-level '../' replacement), e.g. %r" % c["path"])
        else:
            chk.violation(msg, dict(case=c, input_case=ic))
    chk.sample(dict(kind="path-cases", exported_by_tlc=len(cases), replayed=len(jobs), random_long_paths=len(rjobs), f9_class=len(f9), examples=[c["path"] for c in pick[:12]]))
    chk.extra["exhaustive"] = bool(thorough and len(pick) >= len(cases))
    return chk.finish()
