"""Registry of property checks: id -> function(tier) -> exit code."""
REGISTRY = {}
def register(pid):
    def deco(fn):
        REGISTRY[pid] = fn
        return fn
    return deco
from . import flow, slots, fs, wiring, audit, paths, tempdir, expand, join, stream, components, report      # noqa: E402,F401
