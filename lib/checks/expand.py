"""C15: placeholders and path modifiers expand as documented.
Expand.tla states the documented rules over character sequences; TLC enumerates values x modifier chains inside the
domain where the documentation is unambiguous and exports the expected results; each case is replayed against the
real Task.Command and output-path functions (public API) in several contexts; missing values must stop the program."""
import random, json, os, re, subprocess
from vlib import *
from . import register
from .tempdir import call_probe

def expand_cases(maxchain):
    cfg = "CONSTANT MaxChain = %d\nSPECIFICATION Spec\nINVARIANTS E_Idempotent Export\n" % maxchain
    r = run_tlc("Expand", "e.cfg", cfgtext=cfg, workers=4, timeout=900, heap="4g")
    cases = [json.loads(json.loads('"' + m.group(1) + '"')) for m in re.finditer(r'^"CASE (.*)"$', r.out, re.M)]
    return r, cases

def dies(reqobj):
    probe = build("probe")
    r = subprocess.run([probe], input=json.dumps(reqobj) + "\n", capture_output=True, text=True, timeout=60)
    return r.returncode != 0, r.stdout.strip()

@register("C15")
def check_C15(tier):
    chk = Check("C15", tier)
    chk.rule = ("Expand.tla: 7 values x modifier chains (basename, dirname, %suffix x3, s/a/b/ x3) of length <= MaxChain inside the documented domain; every exported "
                "case is replayed in 5 contexts (in-port in a command, 1-3 occurrences; parameter; tag; in-port / parameter / tag in an output-path pattern); default "
                "output name: determinism over repeated evaluation with several tags/params; missing values in a subprocess; "
                "non-trivial = distinct (value, chain) whose expected result differs from the value")
    chk.assumptions = ["domain: dirname on paths with a directory part, %s only where the value ends in s and is longer, s/a/b/ where a occurs exactly once"]
    thorough = tier == "thorough"
    rng = random.Random(seed() * 43 + 15)
    build("probe")
    r, cases = expand_cases(4 if thorough else 3)
    if r.error or not cases:
        chk.undecided.append("Expand.tla: %s" % (r.error or "no cases")[-300:]); return chk.finish()
    chk.add_tlc(r)
    reqs, metas = [], []
    for c in cases:
        m = c["mods"]
        nocc = rng.choice([1, 2, 3])
        ph = "{i:in%s}" % m
        cmd = "echo " + " ".join([ph] * nocc) + " END"
        reqs.append(dict(op="expand", cmd=cmd + " > {o:out}", outs={"out": "res/{i:in%s}.o" % m}, ins={"in": c["value"]}))
        metas.append(("in-port", c, "echo " + " ".join([c["incmd"]] * nocc) + " END", "res/" + c["plain"] + ".o"))
        reqs.append(dict(op="expand", cmd="echo {p:v%s} {p:v%s} END > {o:out}" % (m, m), outs={"out": "res/x_{p:v%s}_{t:g%s}.o" % (m, m)},
                         ins={}, params={"v": c["value"]}, tags={"g": c["value"]}))
        metas.append(("param", c, "echo %s %s END" % (c["plain"], c["plain"]), "res/x_%s_%s.o" % (c["plain"], c["plain"])))
        reqs.append(dict(op="expand", cmd="echo {t:g%s} END > {o:out}" % m, outs={"out": "res/fixed.o"}, ins={}, params={}, tags={"g": c["value"]}))
        metas.append(("tag", c, "echo %s END" % c["plain"], "res/fixed.o"))
    answers = call_probe(reqs)
    for (ctx, c, want_cmd, want_out), a in zip(metas, answers):
        chk.evaluations += 1
        if "error" in a:
            if "invalid" in a["error"] or "Could not create" in a["error"]:
                continue
            chk.undecided.append("probe error %s" % a["error"][:200]); continue
        got_cmd = a["command"].split(" > ")[0]
        if got_cmd != want_cmd:
            chk.violation("%s placeholder with modifiers %r on value %r expands to %r, documented: %r" % (ctx, c["mods"], c["value"], got_cmd, want_cmd), dict(case=c, context=ctx, answer=a))
        elif a["outs"].get("out") != want_out:
            chk.violation("output path pattern with modifiers %r on value %r gives %r, documented: %r" % (c["mods"], c["value"], a["outs"].get("out"), want_out), dict(case=c, context=ctx, answer=a))
        if c["plain"] != c["value"]:
            chk.nontrivial.add(c["value"] + c["mods"])
    # default output name: deterministic function of inputs, process name, params, tags, port, extension
    dreq = dict(op="expand", proc="My Proc", cmd="tool {i:bb} {i:aa} {p:p1} {p:p0} > {o:res|.tsv}", outs={},
                ins={"aa": "d/x.txt", "bb": "y.csv"}, params={"p1": "5", "p0": "z"}, tags={"aa.who": "me", "aa.lane": "l3", "bb.run": "r1", "aa.site": "s9"})
    names = set()
    for rep in range(6):
        for a in call_probe([dreq] * 5):
            chk.evaluations += 1
            names.add(a.get("outs", {}).get("res"))
    if len(names) != 1:
        chk.violation("the default output name is not a deterministic function of its inputs: %d different names for the same task, e.g. %s" % (len(names), sorted(map(str, names))[:3]), dict(request=dreq))
    else:
        want = "x.txt.y.csv.my_proc.p0_z.p1_5.aa.lane_l3.aa.site_s9.aa.who_me.bb.run_r1.res.tsv"
        if names != {want}:
            print("DRIFT: default output name %r differs from the transcription %r" % (names, want), flush=True)
    # default names of a process with several out-ports: each port's name is built from ITS port name and extension
    mreq = dict(op="expand", proc="multi", cmd="tool {i:in} > {o:res|.tsv} 2> {o:log|.txt} 3> {o:aux} 4> {o:packed|.txt.gz} 5> {o:v2|.v1.2-b_c.tar}", outs={}, ins={"in": "d/x.txt"}, params={}, tags={})
    seen = set()
    for rep in range(4):
        for a in call_probe([mreq] * 4):
            chk.evaluations += 1
            seen.add(json.dumps(a.get("outs", {}), sort_keys=True))
    want = {"res": "x.txt.multi.res.tsv", "log": "x.txt.multi.log.txt", "aux": "x.txt.multi.aux", "packed": "x.txt.multi.packed.txt.gz", "v2": "x.txt.multi.v2.v1.2-b_c.tar"}
    for sj in sorted(seen):
        got = json.loads(sj)
        bad = [k for k in want if not (str(got.get(k, "")).endswith(want[k].split("multi.")[1]) and "multi" in str(got.get(k, "")))]
        if bad or len(set(got.values())) != len(want):
            chk.violation("default output names of a process with out-ports res|.tsv, log|.txt, aux, packed|.txt.gz, v2|.v1.2-b_c.tar do not carry their own port name / extension: %s" % sj, dict(request=mreq, answer=got)); break
        elif got != want:
            print("DRIFT: default output names %r differ from the transcription %r" % (got, want), flush=True)
    else:
        chk.nontrivial.add("default-names:5 ports")
    if len(seen) > 1:
        chk.violation("default output names of a 3-out-port process change between evaluations: %s" % sorted(seen)[:3], dict(request=mreq))
    # missing values stop the program instead of producing an empty / unreplaced placeholder
    for label, q in (("parameter", dict(op="expand", cmd="echo {p:v} > {o:out}", outs={"out": "o.txt"}, ins={}, params={}, tags={})),
                     ("tag", dict(op="expand", cmd="echo {t:g} > {o:out}", outs={"out": "o.txt"}, ins={}, params={}, tags={})),
                     ("parameter (received value is the empty string)", dict(op="expand", cmd="echo {p:v} > {o:out}", outs={"out": "o.txt"}, ins={}, params={"v": ""}, tags={})),
                     ("tag (empty string)", dict(op="expand", cmd="echo {t:g} > {o:out}", outs={"out": "o.txt"}, ins={}, params={}, tags={"g": ""})),
                     ("parameter (empty string) under a modifier", dict(op="expand", cmd="echo {p:v|basename} > {o:out}", outs={"out": "o.txt"}, ins={}, params={"v": ""}, tags={})),
                     ("in-port", dict(op="expand", cmd="cat {i:in} > {o:out}", outs={"out": "o.txt"}, ins={}, params={}, tags={})),
                     ("parameter in an output path", dict(op="expand", cmd="echo x > {o:out}", outs={"out": "o_{p:v}.txt"}, ins={}, params={}, tags={})),
                     ("tag in an output path", dict(op="expand", cmd="echo x > {o:out}", outs={"out": "o_{t:g}.txt"}, ins={}, params={}, tags={})),
                     ("tag in an output path (another tag is present)", dict(op="expand", cmd="echo x > {o:out}", outs={"out": "res/{t:in.lane}/o.txt"}, ins={"in": "d/x.txt"}, params={}, tags={"in.who": "me"})),
                     ("in-port in an output path", dict(op="expand", cmd="echo x > {o:out}", outs={"out": "{i:nope|basename}.o.txt"}, ins={}, params={}, tags={}))):
        died, out = dies(q)
        chk.evaluations += 1
        if not died:
            chk.violation("a missing %s value does not stop the program: %s" % (label, out[:300]), dict(request=q, answer=out))
        else:
            chk.nontrivial.add("missing:" + label)
    chk.sample(dict(kind="expansion-cases", exported_by_tlc=len(cases), contexts=3, examples=cases[:4]))
    chk.extra["exhaustive"] = True
    return chk.finish()
