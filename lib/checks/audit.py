"""C10 (complete and faithful audit records) and C11 (provenance survives restarts).
The lineage part of TaskFS.tla (in-memory records, records loaded from disk for existing files, one audit
file per output written before publication) is model-checked over crash / resume / delete / re-run
histories; real audit files are projected to the abstract records and compared with the specification's
(TSnap) and, field by field, with what the task really executed."""
import random, json, os, re, subprocess
from vlib import *
import zoo, flowcheck as fc, fscheck as fs
from zoo import src, psrc, cmd, E
from . import register
from .fs import FSRunner, FA, FB, FC, FD, crash_histories, in_slot_window
import findings

def TG(n=2):   # tagging component upstream, tags must reach every downstream record
    return dict(name="TG", max=2, bufsize=2,
                procs=[src("s", zoo.items(n)), dict(name="mt", kind="maptotags", tags={"who": "w%id", "batch": "b7"}), cmd("a", ["in"]), cmd("b", ["x"], ["o1", "o2"])],
                edges=[E("s.out", "mt.in"), E("mt.out", "a.in"), E("a.out", "b.x")])
def TGT(n=2):  # tagging component directly behind a task: it rewrites the audit file of the file passing through
    return dict(name="TGT", max=2, bufsize=2,
                procs=[src("s", zoo.items(n)), cmd("a", ["in"]), dict(name="mt", kind="maptotags", tags={"who": "w%id", "batch": "b7"}), cmd("b", ["x"], ["o1", "o2"])],
                edges=[E("s.out", "a.in"), E("a.out", "mt.in"), E("mt.out", "b.x")])
def TG3(n=2):  # tags added in two steps along a chain
    return dict(name="TG3", max=2, bufsize=2,
                procs=[src("s", zoo.items(n)), cmd("a", ["in"]), dict(name="mt1", kind="maptotags", tags={"batch": "b7"}), cmd("b", ["x"]),
                       dict(name="mt2", kind="maptotags", tags={"stage": "s2", "who": "w%id"}), cmd("c", ["x"])],
                edges=[E("s.out", "a.in"), E("a.out", "mt1.in"), E("mt1.out", "b.x"), E("b.out", "mt2.in"), E("mt2.out", "c.x")])
def Z7J(n=2):  # both outputs of one task are inputs of the same downstream task
    return dict(name="Z7J", max=2, bufsize=2,
                procs=[src("s", zoo.items(n)), cmd("a", ["in"], ["o1", "o2"]), cmd("j", ["l", "r"])],
                edges=[E("s.out", "a.in"), E("a.o1", "j.l"), E("a.o2", "j.r")])
def LONGCMD(n=2):   # a command of more than 4096 characters (long Prepend)
    i = zoo.Z1(n=n); i["name"] = "LONGCMD"
    for p in i["procs"]:
        if p["name"] == "a": p["prepend"] = "env VERIF_LONG=" + "x" * 5000
    return i
def PP(n=2):   # Prepend: the recorded command must be the executed one
    i = zoo.Z1(n=n); i["name"] = "PP"
    for p in i["procs"]:
        if p["name"] == "a": p["prepend"] = "env VERIF_PREPENDED=1"
    return i

NORM_DROP = ("ID", "StartTime", "FinishTime", "ExecTimeNS")
def norm_audit(rec, drop=NORM_DROP):
    if not isinstance(rec, dict): return rec
    out = {k: v for k, v in rec.items() if k not in drop}
    out["Upstream"] = {k: norm_audit(v, drop) for k, v in (rec.get("Upstream") or {}).items()}
    return out

def scrub(obj, rr):
    """records of runs in different scratch directories: the directory (absolute outputs) and its name (../<name>/ outputs) are replaced"""
    wd = getattr(rr, "workdir", None)
    if not wd: return obj
    txt = json.dumps(obj).replace(wd, "$PWD").replace(os.path.basename(wd), "$PWDNAME")
    return json.loads(txt)

def load_audits(snap):
    out = {}
    for p, v in snap.items():
        if p.endswith(".audit.json") and v.get("kind") == "file":
            try: out[p[:-len(".audit.json")]] = json.loads(v.get("text") or "null")
            except ValueError: out[p[:-len(".audit.json")]] = None
    return out

def parse_time(s):
    m = re.match(r"(\d+)-(\d+)-(\d+)T(\d+):(\d+):(\d+)(\.\d+)?", s or "")
    if not m: return None
    import datetime
    try:
        return (datetime.datetime(*map(int, m.groups()[:6])) - datetime.datetime(1, 1, 1)).total_seconds() + float(m.group(7) or 0)
    except ValueError:
        return None

def expected_tags(inst, exp):
    """tags a file carries: added by maptotags components it passes through, inherited through tasks from all inputs"""
    ni = norm_inst(inst)
    mts = {p["name"]: p.get("tags", {}) for p in ni["procs"] if p["kind"] == "maptotags"}
    procs = {p["name"]: p for p in ni["procs"]}
    added = {}
    for e in ni["edges"]:
        if e["tp"] in mts:
            up = procs[e["fp"]]
            if up["kind"] == "src":
                items = list(up["items"])
            else:       # outputs of the tasks of a command process, at the connected port
                port = e["from"].split(".", 1)[1]
                items = [o for t in exp["tasks"] if t["proc"] == up["name"] for o in t["outs"] if o.startswith("%s.%s_" % (up["name"], port))]
            for it in items:
                added.setdefault(it, {}).update({k: v.replace("%id", it) for k, v in mts[e["tp"]].items()})
    tags = {k: dict(v) for k, v in added.items()}
    changed = True
    while changed:
        changed = False
        for t in exp["tasks"]:
            merged = {}
            for i in t["ins"]:
                merged.update(tags.get(i, {}))
            for o in t["outs"]:
                want = dict(merged); want.update(added.get(o, {}))
                if tags.get(o) != want:
                    tags[o] = want; changed = True
    return tags

def upstream_vs_disk(path, rec, audits, report, prop="C10", where=""):
    """every record embedded under Upstream, at any depth, is the audit record of that file as it is on disk"""
    for ip, up in ((rec or {}).get("Upstream") or {}).items():
        if ip in audits and isinstance(audits[ip], dict) and isinstance(up, dict):
            if norm_audit(up, ()) != norm_audit(audits[ip], ()):
                diff = [k for k in set(up) | set(audits[ip]) if k != "Upstream" and up.get(k) != audits[ip].get(k)]
                report(prop, "%s.audit.json: the record embedded for %s%s is not the audit record of that file on disk (differs in %s)" % (path, ip, where, sorted(diff) or "nested Upstream"))
                continue
        if isinstance(up, dict):
            upstream_vs_disk(path, up, audits, report, prop, where=" (below %s)" % ip)

def audit_checks(inst, exp, rr, report, dirmap_events=None):
    """field-by-field faithfulness of every audit file of one completed run"""
    ni = norm_inst(inst)
    audits = load_audits(rr.snapshot)
    pnames = {p["name"]: p for p in ni["procs"]}
    tmp_of = {}; cmd_of = {}
    for ev in rr.events:
        if ev["ev"] == "task.new":
            proc, key = task_key(ev["task"]); tmp_of[key] = ev["tmp"]; cmd_of[key] = ev["cmd"]
    executed = {r["key"]: r["cmdline"] for r in rr.cmdlog if r["tag"] == "C"}
    started = {r["key"] for r in rr.cmdlog if r["tag"] == "S"}      # incl. Go-function tasks (no shell, no command line)
    tags = expected_tags(inst, exp)
    def path_of(i):
        return ("o/%s.txt" % i) if any(i in t["outs"] for t in exp["tasks"]) else ("in/%s.txt" % i)
    for t in exp["tasks"]:
        p = pnames[t["proc"]]
        for port, o in zip(p["outs"], [x for x in t["outs"]]):
            pass
        for o in t["outs"]:
            path = "o/%s.txt" % o
            if path not in rr.snapshot: continue
            rec = audits.get(path)
            if not isinstance(rec, dict):
                report("C10", "output %s has no valid audit file" % path); continue
            if rec.get("ProcessName") != t["proc"]:
                report("C10", "%s.audit.json: ProcessName %r, expected %r" % (path, rec.get("ProcessName"), t["proc"]))
            if t["key"] in executed:
                want = "bash -c cd %s && %s && cd .." % (tmp_of.get(t["key"], "?"), rec.get("Command", ""))
                if executed[t["key"]].strip() != want.strip():
                    report("C10", "%s.audit.json: recorded Command is not the command that was executed: recorded %r, bash got %r"
                           % (path, rec.get("Command", "")[:160], executed[t["key"]][:220]))
            want_params = dict(zip(p["params"], t["params"]))
            if (rec.get("Params") or {}) != want_params:
                report("C10", "%s.audit.json: Params %r, expected %r" % (path, rec.get("Params"), want_params))
            outnames = sorted(p["outs"])
            want_out = {port: "o/%s.%s_%s.txt" % (t["proc"], port, t["key"].split(":", 1)[1]) for port in p["outs"]}
            if (rec.get("OutFiles") or {}) != want_out:
                report("C10", "%s.audit.json: OutFiles %r, expected %r" % (path, rec.get("OutFiles"), want_out))
            if (rec.get("Tags") or {}) != tags.get(o, {}):
                report("C10", "%s.audit.json: Tags %r, expected %r (tags attached upstream must be present downstream)" % (path, rec.get("Tags"), tags.get(o, {})))
            st, ft = parse_time(rec.get("StartTime")), parse_time(rec.get("FinishTime"))
            if (t["key"] in executed or t["key"] in started) and (st is None or ft is None or st > ft or (rec.get("ExecTimeNS") or -1) < 0):
                report("C10", "%s.audit.json: timing not sane: start %r finish %r ExecTimeNS %r" % (path, rec.get("StartTime"), rec.get("FinishTime"), rec.get("ExecTimeNS")))
            want_up = {path_of(i) for i in t["ins"]}
            if set((rec.get("Upstream") or {}).keys()) != want_up:
                report("C10", "%s.audit.json: Upstream keys %r, expected %r" % (path, sorted((rec.get("Upstream") or {}).keys()), sorted(want_up)))
            for ip, up in (rec.get("Upstream") or {}).items():
                missing = {k: v for k, v in ((up or {}).get("Tags") or {}).items() if (rec.get("Tags") or {}).get(k) != v}
                if missing:
                    report("C10", "%s.audit.json: tags attached upstream (%s on %s) are not present on the downstream record %r" % (path, missing, ip, rec.get("Tags")))
            upstream_vs_disk(path, rec, audits, report)

def roundtrip(rr_dir_files):
    """Load(Write(r)) = r via the real unmarshal/marshal code (probe)"""
    probe = build("probe")
    reqs = "".join(json.dumps(dict(op="audit_roundtrip", path=p)) + "\n" for p in rr_dir_files)
    r = subprocess.run([probe], input=reqs, capture_output=True, text=True, timeout=60)
    return [json.loads(l) for l in r.stdout.splitlines() if l.strip()]

@register("C10")
def check_C10(tier):
    chk = Check("C10", tier)
    chk.rule = ("TaskFS.tla C10_HasAudit / C11_Lineage over all histories of the small instances; real: every audit file of jittered runs of zoo graphs "
                "(multi-input, multi-output, fan-in/out, parameters, tagging component, Prepend) is parsed and compared field by field: process, command "
                "(against what bash really received, read from /proc by the command itself), params, tags, out-files, timing, Upstream keyed by input path = "
                "the input's own record recursively; projected records are validated against the specification's lineage (TSnap); "
                "non-trivial = distinct (instance, output file) with >= 1 upstream record")
    thorough = tier == "thorough"
    rng = random.Random(seed() * 23 + 10)
    build("wfdriver")
    R = FSRunner(chk, {"C10"})
    R.closed(FA(), maxruns=2, env=("crash", "cleanup", "rerun"))
    R.closed(FB(), maxruns=1, env=())
    gf = zoo.Z1(n=2); gf["name"] = "Z1GO"        # Go-function tasks between shell tasks
    for p in gf["procs"]:
        if p["name"] == "a": p["kind"] = "gofunc"
    insts = [zoo.Z1(n=3), zoo.Z3(n=3), zoo.Z7(n=2), TG(), TGT(), TG3(), Z7J(), PP(), LONGCMD(), FD(), gf, zoo.Z6(n=2), zoo.Z4(n=2)] + ([zoo.Z2(n=3), zoo.Z14(n=3), zoo.Z9(n=2)] if thorough else [])
    def one(inst):
        exp = fc.expected(inst)
        cmds = [p["name"] for p in inst["procs"] if p["kind"] in ("cmd", "gofunc")]
        vs = fc.jitter_variants(random.Random(rng.random()), 4 if thorough else 2, bufs=(1, 128), procs=cmds)
        return inst, exp, fc.real_runs(inst, vs)
    for inst, exp, rrs in pmap(one, insts, workers=8):
        for rr in rrs:
            chk.evaluations += 1
            if not rr.completed or rr.rc != 0:
                chk.undecided.append("run of %s failed rc=%s %s" % (inst["name"], rr.rc, rr.stderr[-200:])); continue
            def report(prop, msg, rr=rr, inst=inst):
                chk.violation("%s [instance %s]" % (msg, inst["name"]), dict(instance=norm_inst(inst), variant=rr.variant))
            audit_checks(inst, exp, rr, report)
            for t in exp["tasks"]:
                if t["ins"]:
                    for o in t["outs"]: chk.nontrivial.add("%s:%s" % (inst["name"], o))
        chk.sample(dict(kind="audit-files", instance=inst["name"], runs=len(rrs), outputs=len(exp["files"])), limit=8)
    # two inputs carrying the SAME tag key with different values: whatever is finalized must still carry every upstream tag
    tg2 = dict(name="TG2", max=2, bufsize=2,
               procs=[src("s1", ["1"]), src("s2", ["2"]), dict(name="m1", kind="maptotags", tags={"batch": "one"}), dict(name="m2", kind="maptotags", tags={"batch": "two"}),
                      cmd("j", ["l", "r"], ["out"])],
               edges=[E("s1.out", "m1.in"), E("s2.out", "m2.in"), E("m1.out", "j.l"), E("m2.out", "j.r")])
    rr = fc.real_runs(tg2, [dict(env={}, bufsize=2, timeout=30)])[0]
    chk.evaluations += 1
    exp2 = fc.expected(tg2)
    def rep2(prop, msg): chk.violation("%s [instance TG2: conflicting tag values on two inputs]" % msg, dict(instance=tg2, rc=rr.rc))
    audit_checks(tg2, exp2, rr, rep2)
    chk.nontrivial.add("conflicting-tags:rc=%s" % rr.rc)
    # the audit file of an output cannot be written (a directory squats on its path): nothing may be finalized without it
    sq = FC(); sq["mkdirs"] = ["o/a.out_1.txt.audit.json"]
    rr = fc.real_runs(sq, [dict(env={}, bufsize=2, timeout=30)])[0]
    chk.evaluations += 1
    if "o/a.out_1.txt" in rr.snapshot and rr.snapshot.get("o/a.out_1.txt.audit.json", {}).get("kind") != "file":
        chk.violation("output o/a.out_1.txt was finalized although its audit file could not be written (rc=%s)" % rr.rc, dict(instance=sq, stderr=rr.stderr[-300:]))
    else:
        chk.nontrivial.add("audit-write-fault")
    # tags attached to files that travel as sub-stream members must reach the joined task's record
    inst = dict(name="TGJ", max=2, bufsize=4,
                procs=[src("s", zoo.items(3)), dict(name="mt", kind="maptotags", tags={"batch": "b7"}), dict(name="ss", kind="substream"),
                       dict(name="cat", kind="cmd", ins=["in"], outs=["out"], joins={"in": " "}, arg="cat {i:in|join: } > {o:out}")],
                edges=[E("s.out", "mt.in"), E("mt.out", "ss.in"), E("ss.substream", "cat.in")])
    rr = fc.real_runs(inst, [dict(env={}, bufsize=4, timeout=30)])[0]
    chk.evaluations += 1
    aud = rr.snapshot.get("o/cat.out_.txt.audit.json", {}).get("text")
    if rr.rc != 0 or not aud:
        chk.undecided.append("tag/sub-stream scenario failed: %s" % rr.stderr[-200:])
    else:
        rec = json.loads(aud)
        member_tags = [(v.get("Tags") or {}) for v in (rec.get("Upstream") or {}).values()]
        if all(t.get("batch") == "b7" for t in member_tags) and (rec.get("Tags") or {}).get("batch") != "b7":
            msg = "tags carried by the members of a sub-stream (batch=b7 on every member) are absent from the joined task's audit record"
            if findings.active("F8"): chk.known_finding("F8", msg)
            else: chk.violation(msg, dict(instance=inst, record={k: rec[k] for k in ("ProcessName", "Tags")}))
        elif not all(t.get("batch") == "b7" for t in member_tags):
            chk.violation("sub-stream member records lost the tag attached by MapToTags: %s" % member_tags, dict(instance=inst))
    # a process with a joined in-port AND ordinary in-ports: every input file is an Upstream key (repeated: map iteration order)
    jnh = dict(name="JNH", max=2, bufsize=4,
               procs=[src("s", zoo.items(2)), cmd("a", ["in"]), dict(name="ss", kind="substream"), src("h", ["hd"]), src("f", ["ft"]),
                      dict(name="cat", kind="cmd", ins=["files", "head", "zfoot"], outs=["out"], joins={"files": " "}, outpaths={"out": "o/merged.txt"},
                           arg="cat {i:head} {i:files|join: } {i:zfoot} > {o:out}")],
               edges=[E("s.out", "a.in"), E("a.out", "ss.in"), E("ss.substream", "cat.files"), E("h.out", "cat.head"), E("f.out", "cat.zfoot")])
    for rr in fc.real_runs(jnh, [dict(env={}, bufsize=4, timeout=30) for _ in range(6)]):
        chk.evaluations += 1
        aud = rr.snapshot.get("o/merged.txt.audit.json", {}).get("text")
        if rr.rc != 0 or not aud:
            chk.undecided.append("joined + ordinary in-ports scenario failed: %s" % rr.stderr[-200:]); break
        ups = set((json.loads(aud).get("Upstream") or {}).keys())
        want = {"o/a.out_1.txt", "o/a.out_2.txt", "in/hd.txt", "in/ft.txt"}
        if ups != want:
            chk.violation("o/merged.txt.audit.json: Upstream keys %s, expected every input file %s (process with a joined in-port and two ordinary in-ports)" % (sorted(ups), sorted(want)), dict(instance=jnh)); break
    else:
        chk.nontrivial.add("joined+ordinary in-ports")
    # an audit file left over from an earlier, longer record at the same path (outputs deleted, audit files kept, parameter shortened)
    stale = dict(name="STALEAUD", max=1, bufsize=2,
                 procs=[src("s", ["1"]), dict(name="a", kind="cmd", ins=["in"], outs=["out"], params=["p"], outpaths={"out": "o/a.fix_{i:in|basename}"}), cmd("b", ["x"])],
                 edges=[E("s.out", "a.in"), E("a.out", "b.x")], feeds=[dict(to="a.p", values=["L" * 400])])
    h = fs.History(stale, [("run", None), ("delete", ["a.fix_1", "b.out_a.fix_1"], False), ("spec", dict(feeds=[dict(to="a.p", tp="a", values=["s"])])), ("run", None)],
                   label="long record, outputs deleted (audit files kept), re-run with a shorter record"); h.accept = False; h.exp = None
    fs.run_history(h); chk.evaluations += 2
    last = h.runs[-1]
    bad = []
    for pth, v in last.snapshot.items():
        if pth.endswith(".audit.json") and v.get("kind") == "file" and pth[:-len(".audit.json")] in last.snapshot:
            try: json.loads(v.get("text") or "")
            except ValueError: bad.append(pth)
    if bad:
        chk.violation("audit files that are not valid JSON after a re-run that wrote a shorter record over a longer stale one: %s" % bad, dict(instance=stale))
    elif last.rc == 0: chk.nontrivial.add("stale longer audit file")
    # lineage of the specification vs projected real records: complete runs as one-step histories
    for inst in [FA(), FB(), FD()] + ([FC()] if thorough else []):
        hs = [fs.History(inst, [("run", None)], label="complete run")]
        hs += [h for h in crash_histories(inst, rng, n=8, cleaned=True) if in_slot_window(h.label.split(" ")[1])]
        R.histories(inst, hs)
    return chk.finish()

@register("C11")
def check_C11(tier):
    chk = Check("C11", tier)
    chk.rule = ("TaskFS.tla: histories of <= 3 runs with crash, cleanup, deletion of a task's outputs and everything downstream, re-run; C11_Lineage in every state, "
                "weakened variant NoAuditLoad refuted; real: crash at instrumented instants + cleanup + resume, RunTo split then Run, complete run + delete "
                "downstream + re-run; audit files of the final state compared with those of an uninterrupted run (ids/times dropped), ancestor records of new "
                "files compared with the files on disk (exactly), write/read round trip through the real marshal code; projected records validated by TSnap; "
                "non-trivial = distinct (instance, history)")
    thorough = tier == "thorough"
    rng = random.Random(seed() * 29 + 11)
    build("wfdriver"); build("probe")
    R = FSRunner(chk, {"C11"})
    R.closed(FA(), maxruns=3)
    R.closed(FB(), maxruns=2, env=("crash", "cleanup", "rerun", "delete"))
    R.closed(FC(), maxruns=2, weak=["NoAuditLoad"]) if False else None
    R.closed(FB(), maxruns=2, weak=["NoAuditLoad"], env=("crash", "cleanup", "rerun"))
    def make_judge(inst):
        exp = fc.expected(inst)
        base = fc.real_runs(inst, [dict(env={}, bufsize=2)])[0]
        base_aud = {k: scrub(norm_audit(v), base) for k, v in load_audits(base.snapshot).items()}
        def judge(h, exp2):
            last = h.runs[-1]
            if not last.completed: return
            f7 = any(fsmod.partially_published(pr, exp, inst) for pr in h.snaps[:-1])
            aud = load_audits(last.snapshot)
            if set(final_ids(last.snapshot)) != set(final_ids(base.snapshot)) and not f7:
                R.report("C11", "after history '%s' the files differ from an uninterrupted run: %s" % (h.label, sorted(set(final_ids(last.snapshot)) ^ set(final_ids(base.snapshot)))[:6]), h)
            for path, rec in aud.items():
                if path not in base_aud: continue
                if scrub(norm_audit(rec), last) != base_aud[path] and not f7:
                    R.report("C11", "after history '%s' the lineage in %s.audit.json differs from an uninterrupted run" % (h.label, path), h)
                # ancestor records (at any depth) identical to those on disk
                if not f7:
                    upstream_vs_disk(path, rec, aud, lambda prop, msg: R.report("C11", "after history '%s' %s" % (h.label, msg), h), prop="C11")
        return judge
    from . import fs as fsmod
    z3 = zoo.Z3(n=3, mx=2); z3["ctl"] = {"a.sleep": "0.12"}     # diamond with a positional join; recomputed tasks are slow
    tg3 = TG3()
    from .fs import FE
    dots = FB(); dots["name"] = "FBDOT"          # outputs declared with an unclean relative path (./o/...)
    for p in dots["procs"]:
        if p["kind"] != "src": p["outdir"] = "./o/"
    chain3 = dict(name="CH3", max=1, bufsize=2, mkdirs=["o"],      # three tasks in a row, outputs reached through the parent directory
                  procs=[src("s", ["1"]), cmd("a", ["in"]), cmd("b", ["x"]), cmd("c", ["x"])],
                  edges=[E("s.out", "a.in"), E("a.out", "b.x"), E("b.out", "c.x")])
    for p in chain3["procs"]:
        if p["kind"] != "src": p["outdir"] = "../$PWDNAME/o/"
    for inst in [FA(), FB(), z3, tg3, LONGCMD(), FE("parent"), FE("abs"), dots, chain3] + ([FD(), zoo.Z3(n=2, mx=1), TGT()] if thorough else []):
        exp = fc.expected(inst)
        hs = crash_histories(inst, rng, n=None if thorough else 16, depth2=6 if thorough else 2, cleaned=True) if inst["name"] not in ("Z3", "TG3", "TGT", "LONGCMD", "FEparent", "FEabs", "FBDOT", "CH3") else []
        cmds = [p["name"] for p in inst["procs"] if p["kind"] in ("cmd", "gofunc")]
        # RunTo split: first the upstream part, then everything
        for tgt in cmds[:-1]:
            h = fs.History(inst, [("spec", dict(mode="runto", targets=[tgt])), ("run", None), ("spec", dict(mode="run", targets=[])), ("run", None)],
                           label="RunTo(%s), then Run" % tgt); h.accept = False
            hs.append(h)
        # complete run, delete the outputs of one task and everything downstream, run again
        for t in exp["tasks"]:
            gone = set(t["outs"]); ch = True
            while ch:
                ch = False
                for u in exp["tasks"]:
                    if set(u["ins"]) & gone and not set(u["outs"]) <= gone:
                        gone |= set(u["outs"]); ch = True
            ordered = list(t["outs"]) + sorted(gone - set(t["outs"]))
            for with_audit in (False, True):
                hs.append(fs.History(inst, [("run", None), ("delete", ordered, with_audit), ("run", None)],
                                     label="complete run, delete %s (+downstream%s), re-run" % (t["key"], ", audit files too" if with_audit else "")))
                if inst.get("max", 1) > 1: hs[-1].accept = False
        if inst["name"] in ("TG3", "TGT"):
            # a tagging component re-writes the audit file of the file passing through it; a kill inside that write leaves it empty.
            # The resumed run may stop (exit != 0), but what it produces must carry the lineage of an uninterrupted run
            first_mt = [p["name"] for p in inst["procs"] if p["kind"] == "maptotags"][0]
            for item in zoo.items(2):
                h = fs.History(inst, [("spec", dict(mode="runto", targets=["a"])), ("run", None), ("truncate", ["o/a.out_%s.txt.audit.json" % item]),
                                      ("spec", dict(mode="run", targets=[])), ("run", None)],
                               label="RunTo(a), audit file of a.out_%s emptied by a kill inside its re-write (%s), Run" % (item, first_mt)); h.accept = False
                hs.append(h)
        R.histories(inst, hs, judge=make_judge(inst))
    # write / read round trip of real audit files
    inst = zoo.Z3(n=2)
    d = scratch("rt")
    try:
        prepare_dir(inst, d); rr = run_real(inst, d, timeout=40)
        files = sorted(os.path.join(d, p) for p in rr.snapshot if p.endswith(".audit.json"))
        for f, ans in zip(files, roundtrip(files)):
            chk.evaluations += 1
            if not ans.get("same_json"):
                chk.violation("writing an audit record and reading it back loses information: %s" % os.path.basename(f), dict(file=open(f).read()[:2000], answer=ans))
    finally:
        rmtree(d)
    return chk.finish()
