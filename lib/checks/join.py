"""C18: a joined in-port receives the whole sub-stream, once, in order.
Join.tla (closed model: producers, bounded channel, carrier IP, draining NewTask) is model-checked for lengths 0..BufSize+2
with one and two producers; real join workflows (StreamToSubStream + {i:x|join:SEP}) are run for the same lengths,
separators and modifiers; the recorded events and what the command really received are validated by JoinTrace.tla."""
import random, json, os, re
from vlib import *
import zoo, flowcheck as fc
from . import register

def join_inst(n1, n2, sep, mod, buf, twoout=False):
    """twoout = True: the first producer has two out-ports, both fanned into the sub-stream (two members written by the same task);
    "abs" / "mixed": all producers / the first producer declare their outputs by absolute paths"""
    absdir = "$PWD/o/"
    procs = [zoo.src("s1", zoo.items(n1, "a")), zoo.cmd("a1", ["in"], ["o1", "o2"] if twoout is True else ["out"]), dict(name="ss", kind="substream")]
    if twoout in ("abs", "mixed"): procs[1]["outdir"] = absdir
    edges = [zoo.E("s1.out", "a1.in")] + ([zoo.E("a1.o1", "ss.in"), zoo.E("a1.o2", "ss.in")] if twoout is True else [zoo.E("a1.out", "ss.in")])
    if n2 >= 0:
        procs += [zoo.src("s2", zoo.items(n2, "b")), zoo.cmd("a2", ["in"])]
        if twoout == "abs": procs[-1]["outdir"] = absdir
        edges += [zoo.E("s2.out", "a2.in"), zoo.E("a2.out", "ss.in")]
    ph = "{i:in|join:%s%s}" % (sep, ("|" + mod) if mod else "")
    procs.append(dict(name="cat", kind="cmd", ins=["in"], outs=["out"], joins={"in": sep}, arg="echo 'ARGS[%s]' > {o:out}" % ph))
    edges.append(zoo.E("ss.substream", "cat.in"))
    inst = dict(name="JN", max=3, bufsize=buf, procs=procs, edges=edges)
    if twoout in ("abs", "mixed"): inst["mkdirs"] = ["o"]      # absolute outputs: the destination directory exists (stated precondition, C13)
    return inst

def undo(arg, mod, members):
    if mod == "basename":      # documented: only the file name is left (no parent-dir prefix either; F18 was "../name")
        c = [m for m in members if os.path.basename(m) == arg]
        return c[0] if len(c) == 1 else arg
    a = arg[3:] if (arg.startswith("../") and not arg[3:].startswith("/")) else arg      # relative members are referenced from inside the temp dir
    if not mod: return a
    if mod == "%.txt": return a + ".txt"
    return a

def normalize_join(rr, sep, mod):
    rows = [dict(e="header", sep=sep)]
    members, cmdstarts = None, 0
    for ev in rr.events:
        if ev["ev"] == "send.begin" and ev["to"] == "ss.in":
            rows.append(dict(e="sub.send", item=ev["path"], **{"from": ev["from"]}))
        elif ev["ev"] == "ct.sub" and ev["proc"] == "cat":
            rows.append(dict(e="sub.drain", item=ev["path"]))
        elif ev["ev"] == "task.new" and ev["proc"] == "cat":
            m = re.search(r"in=\[(.*?)\]", ev["task"])
            members = [x for x in m.group(1).split(",") if x] if m else []
        elif ev["ev"] == "cmd.start" and ev["task"].startswith("cat|"):
            cmdstarts += 1
    out = rr.snapshot.get("o/cat.out_.txt", {}).get("text")
    argv = None
    if out is not None:
        m = re.match(r"ARGS\[(.*)\]\n?$", out, re.S)
        if m:
            argv = [undo(x, mod, members or []) for x in (m.group(1).split(sep) if m.group(1) else [])]
    aud = rr.snapshot.get("o/cat.out_.txt.audit.json", {}).get("text")
    upstream = sorted((json.loads(aud).get("Upstream") or {}).keys()) if aud else None
    if members is not None:
        rows.append(dict(e="join.task", members=members, argv=argv if argv is not None else ["?no-output"], upstream=upstream if upstream is not None else ["?no-audit"], execs=cmdstarts))
    return rows, members, argv

@register("C18")
def check_C18(tier):
    chk = Check("C18", tier)
    chk.rule = ("Join.tla: one / two producers, lengths 0..BufSize+2, BufSize 1..2: order, whole, once, the task eventually runs; real: the same lengths x separators "
                "{space, comma, colon} x modifiers {none, %.txt, basename} x producer timing; JoinTrace.tla checks drained = per-upstream prefix of sent, task members = "
                "drained = what the command received = audit Upstream keys, exactly one execution; the same workflows as Flow.tla instances (C18_Whole, liveness; weakened SubNoDrain "
                "must be rejected) and FlowTrace.tla as acceptor of every recorded join run; non-trivial = distinct (lengths, separator, modifier) with >= 2 members")
    thorough = tier == "thorough"
    rng = random.Random(seed() * 47 + 18)
    build("wfdriver")
    for buf in (1, 2):
        for (l1, l2) in [(n, 99) for n in range(0, buf + 3)] + [(2, 1), (buf + 1, 2)]:
            cfg = "CONSTANTS BufSize = %d\n L1 = %d\n L2 = %d\nSPECIFICATION Spec\nINVARIANTS C18_Order C18_Whole C18_Once\nPROPERTY C18_Runs\n" % (buf, l1, l2)
            r = run_tlc("Join", "j.cfg", cfgtext=cfg, workers=2, timeout=120)
            if r.error: chk.undecided.append("Join.tla: " + r.error[-200:]); continue
            chk.add_tlc(r)
            if not r.ok: chk.undecided.append("Join.tla (buf=%d, lens=%s) violates %s" % (buf, (l1, l2), r.violated or "deadlock"))
    # the same workflows as instances of Flow.tla (sub-stream emitter, carrier item, joined in-port drained before the task is built)
    flowcases = [(0, -1, 1, False), (1, -1, 1, False), (2, -1, 1, False), (2, -1, 2, False), (1, -1, 1, True)] + ([(3, -1, 2, False), (3, -1, 1, False), (1, 1, 1, False)] if thorough else [])
    def flowmodel(fcase):
        n1, n2, buf, twoout = fcase
        return fcase, fc.closed_model(join_inst(n1, n2, " ", "", buf, twoout), liveness=True, workers=2, timeout=600 if thorough else 240)
    for fcase, r in pmap(flowmodel, flowcases, workers=4):
        if r.error: chk.undecided.append("Flow.tla on join instance %s: %s" % (fcase, r.error[-200:])); continue
        chk.add_tlc(r)
        if not r.ok: chk.undecided.append("Flow.tla on join instance %s violates %s" % (fcase, r.violated or "deadlock"))
        else: chk.nontrivial.add("flow-model:%s" % (fcase,))
    r = fc.closed_model(join_inst(2, -1, " ", "", 1), liveness=False, workers=2, timeout=240, weak=["SubNoDrain"])
    if r.error: chk.undecided.append("Flow.tla weakened (SubNoDrain): " + r.error[-200:])
    elif r.violated != "C18_Whole": chk.undecided.append("Flow.tla with the task built before the sub-stream ended is not rejected by C18_Whole (vacuous model)")
    else: chk.extra["weak_rejected"] = chk.extra.get("weak_rejected", []) + ["SubNoDrain"]
    cases = []
    for buf in (1, 2):
        for n in range(0, buf + 3):
            for sep in (" ", ",", ":"):
                for mod in ("", "%.txt", "basename"):
                    if thorough or rng.random() < 0.35 or (n >= 2 and mod and sep == " "):
                        cases.append((n, -1, sep, mod, buf))
    cases += [(2, 2, ",", "", 1), (3, 2, " ", "%.txt", 2), (1, 3, ":", "basename", 1), (12, -1, " ", "", 2), (9, 11, ",", "%.txt", 1)]
    cases += [(3, -1, ", ", "", 2), (2, 2, "--", "basename", 1), (3, -1, " -I ", "", 2), (2, -1, "::", "%.txt", 1)]      # separators of several characters
    cases += [(3, -1, "%", "", 2), (2, 2, "%,", "", 1), (3, -1, "+", "basename", 2), (2, -1, "@", "", 1)]                # punctuation the shell leaves alone
    cases = [c + (False,) for c in cases] + [(1, -1, " ", "", 1, True), (2, -1, ",", "", 2, True), (3, 2, " ", "%.txt", 1, True)]
    cases += [(3, -1, " ", "", 2, "abs"), (2, 2, ",", "", 1, "abs"), (2, 1, " ", "", 2, "mixed")]      # members with absolute paths (all / some)
    def one(c):
        n1, n2, sep, mod, buf, twoout = c
        inst = join_inst(n1, n2, sep, mod, buf, twoout)
        procs = ["a1"] + (["a2"] if n2 >= 0 else [])
        vs = fc.jitter_variants(random.Random(rng.random()), 3 if thorough else 2, bufs=(buf,), procs=procs)
        rrs = fc.real_runs(inst, vs)
        rows, info = [], []
        for rr in rrs:
            r, members, argv = normalize_join(rr, sep, mod)
            rows += r; info.append((members, argv))
        res = run_tlc("JoinTrace", "JoinTrace.cfg", files={"trace.ndjson": ndjson(rows)}, workers=1, timeout=120)
        good = [r for r in rrs if not (r.timeout or r.deadlock) and r.rc == 0 and r.completed]
        det = fc.validate_traces(inst, fc.expected(inst), good)[0] if good else None
        return c, inst, rrs, info, res, det
    for c, inst, rrs, info, res, det in pmap(one, cases, workers=8):
        n1, n2, sep, mod, buf, twoout = c
        label = "lengths (%d,%d) sep %r modifier %r bufsize %d%s" % (n1, n2, sep, mod, buf, " (first producer: two out-ports into the sub-stream)" if twoout is True else (" (member paths: %s)" % twoout if twoout else ""))
        for rr, (members, argv) in zip(rrs, info):
            chk.evaluations += 1
            if rr.timeout or rr.deadlock:
                chk.violation("join workflow did not finish: %s" % label, dict(instance=inst)); continue
            if rr.rc != 0 or not rr.completed:
                chk.violation("join workflow failed (rc=%s): %s %s" % (rr.rc, label, rr.stderr[-200:].replace("\n", " | ")), dict(instance=inst)); continue
            if not mod and argv:
                missing = [a for a in argv if "o/%s" % os.path.basename(a) not in rr.snapshot]
                if missing:
                    chk.violation("paths in the join placeholder do not resolve from the task's working directory: %s (%s)" % (missing[:3], label), dict(instance=inst))
            want = (n1 if n1 > 0 else 0) * (2 if twoout is True else 1) + (n2 if n2 > 0 else 0)
            if members is not None and len(members) != want:
                chk.violation("joined task got %d files, the sub-stream has %d (%s)" % (len(members), want, label), dict(instance=inst, members=members))
        if res.error:
            chk.undecided.append("JoinTrace %s: %s" % (label, res.error[-200:]))
        else:
            chk.add_tlc(res)
            if res.violated:
                chk.violation("invariant %s violated on a recorded join run: %s" % (res.violated, label), dict(instance=inst, info=info, tlc=res.out[-2000:]))
            elif res.ok:
                chk.traces += len(rrs)
        if det is not None:
            if det.error: chk.undecided.append("FlowTrace %s: %s" % (label, det.error[-200:]))
            else:
                chk.add_tlc(det)
                if det.violated:
                    if fc.prop_of_invariant(det.violated) == "C18":
                        chk.violation("invariant %s violated on the trace of a real join run (FlowTrace): %s" % (det.violated, label), dict(instance=inst, tlc=det.out[-2500:]))
                    else: chk.notes.append("other-property %s" % det.violated)
                elif det.rejected:
                    print("DRIFT: FlowTrace rejected a recorded join run (%s) at line %d: %s" % (label, det.rejected[0], det.rejected[1][:200]), flush=True)
                    chk.extra["drift"] = chk.extra.get("drift", 0) + 1
                elif det.ok: chk.extra["flowtrace_accepted"] = chk.extra.get("flowtrace_accepted", 0) + 1
        if n1 + max(n2, 0) >= 2: chk.nontrivial.add(json.dumps(c))
        chk.sample(dict(kind="join-run", case=label, members=info[0][0] if info else None), limit=5)
    # the SAME joined in-port in several placeholders with different modifiers: each placeholder gets the whole sub-stream, with its own modifiers
    for n in (1, 3):
        inst = join_inst(n, -1, ",", "", 2)
        inst["name"] = "JNREP"
        inst["procs"][-1]["arg"] = "echo 'ARGS[{i:in|join:,}] MOD[{i:in|join:,|%.txt}] BASE[{i:in|join:,|basename}] AGAIN[{i:in|join:,}]' > {o:out}"
        for rr in fc.real_runs(inst, [dict(env={}, bufsize=2, timeout=30), dict(env={"VERIF_JITTER": "5"}, bufsize=1, timeout=30)]):
            chk.evaluations += 1
            txt = rr.snapshot.get("o/cat.out_.txt", {}).get("text")
            mem = ["../o/a1.out_a%d.txt" % k for k in range(1, n + 1)]
            want = "ARGS[%s] MOD[%s] BASE[%s] AGAIN[%s]\n" % (",".join(mem), ",".join(m[:-4] for m in mem), ",".join(os.path.basename(m) for m in mem), ",".join(mem))
            if rr.timeout or rr.deadlock or rr.rc != 0 or txt is None:
                chk.violation("joined in-port used in four placeholders (%d members): the workflow did not complete: rc=%s %s" % (n, rr.rc, rr.stderr[-160:].replace("\n", " | ")), dict(instance=inst)); continue
            if txt != want:
                chk.violation("joined in-port used in several placeholders with different modifiers: the command received %r, expected %r" % (txt.strip(), want.strip()), dict(instance=inst))
        chk.nontrivial.add("joined-port-repeated:%d" % n)
    # a process with TWO joined in-ports: each placeholder gets its own sub-stream, the audit record names the members of both
    for la, lb in ((3, 2), (2, 3), (1, 1)):
        inst = dict(name="JN2", max=3, bufsize=4,
                    procs=[zoo.src("s1", zoo.items(la, "a")), zoo.src("s2", zoo.items(lb, "b")), zoo.cmd("p1", ["in"]), zoo.cmd("p2", ["in"]),
                           dict(name="ssa", kind="substream"), dict(name="ssb", kind="substream"),
                           dict(name="cat", kind="cmd", ins=["as", "bs"], outs=["out"], joins={"as": ",", "bs": ","}, outpaths={"out": "o/both.txt"},
                                arg="echo 'AS[{i:as|join:,}] BS[{i:bs|join:,}]' > {o:out}")],
                    edges=[zoo.E("s1.out", "p1.in"), zoo.E("s2.out", "p2.in"), zoo.E("p1.out", "ssa.in"), zoo.E("p2.out", "ssb.in"),
                           zoo.E("ssa.substream", "cat.as"), zoo.E("ssb.substream", "cat.bs")])
        for rr in fc.real_runs(inst, [dict(env={}, bufsize=4, timeout=30), dict(env={"VERIF_JITTER": "9"}, bufsize=1, timeout=30)]):
            chk.evaluations += 1
            txt = rr.snapshot.get("o/both.txt", {}).get("text")
            aud = rr.snapshot.get("o/both.txt.audit.json", {}).get("text")
            wa = ["../o/p1.out_a%d.txt" % k for k in range(1, la + 1)]; wb = ["../o/p2.out_b%d.txt" % k for k in range(1, lb + 1)]
            want = "AS[%s] BS[%s]\n" % (",".join(wa), ",".join(wb))
            if rr.timeout or rr.deadlock or rr.rc != 0 or txt is None:
                chk.violation("process with two joined in-ports (%d and %d members) did not complete: rc=%s %s" % (la, lb, rr.rc, rr.stderr[-160:].replace("\n", " | ")), dict(instance=inst)); continue
            if txt != want:
                chk.violation("process with two joined in-ports: the command received %r, expected %r" % (txt.strip(), want.strip()), dict(instance=inst))
            ups = set((json.loads(aud).get("Upstream") or {}).keys()) if aud else set()
            wantup = {x[3:] for x in wa + wb}
            if ups != wantup:
                chk.violation("process with two joined in-ports: audit Upstream keys %s, expected the members of both sub-streams %s" % (sorted(ups), sorted(wantup)), dict(instance=inst))
        chk.nontrivial.add("two-joined-ports:%d:%d" % (la, lb))
    return chk.finish()
