"""C14: tasks in flight never share a temp directory; the name is stable and a valid path segment.
TempDir.tla transcribes the naming function; TLC enumerates an identity space, lists the collision classes of the
pre-image (F4) and exports the identities; the real Task.TempDir() is called for every identity through the public
API, the verdict is taken from the real names (injective / stable / single segment <= 255 bytes)."""
import random, json, os, re, subprocess, hashlib
from vlib import *
import zoo, flowcheck as fc
from . import register
import findings

def tlc_ids(big, foldat, weak=()):
    cfg = "CONSTANT FoldAt = %d\nBig = %s\nWeak = {%s}\nSPECIFICATION Spec\n" % (foldat, "TRUE" if big else "FALSE", ",".join('"%s"' % w for w in weak))
    r = run_tlc("TempDir", "t.cfg", cfgtext=cfg, workers=4, timeout=1200, heap="6g")
    m = re.search(r'^"IDS (.*)"$', r.out, re.M)
    ids = json.loads(json.loads('"' + m.group(1) + '"')) if m else None
    n = re.search(r'NCOLLISIONS (\d+)', r.out)
    sp = re.search(r'NSAMEPIECES (\d+)', r.out)
    r.samepieces = int(sp.group(1)) if sp else None
    return r, ids, int(n.group(1)) if n else None

def call_probe(reqs):
    probe = build("probe")
    r = subprocess.run([probe], input="".join(json.dumps(q) + "\n" for q in reqs), capture_output=True, text=True, timeout=600)
    return [json.loads(l) for l in r.stdout.splitlines() if l.strip()]

def req_of(i):
    ins = {"x": i["x"]}
    if i["y"]: ins["y"] = i["y"]
    params = {} if i["k"] == "-" else ({"k": "1", "K": "2"} if i["k"] == "kK" else {"k": i["k"]})
    return dict(op="tempdir", name=i["name"], ins=ins, params=params, tags=({} if i["t"] == "-" else {"x.g": i["t"]}))

@register("C14")
def check_C14(tier):
    chk = Check("C14", tier)
    chk.rule = ("TempDir.tla: identity space names(case / special characters / length) x in-paths on two ports (segment boundaries) x param x tag; TLC lists the "
                "collision classes of the pre-image and checks they are all 'equal concatenation of pieces' (F4) and the length bound incl. folding; the real "
                "TempDir() is called for every exported identity (twice, in two processes) and for random long identities; a join task is run twice end to end; "
                "non-trivial = distinct identity pairs that differ in exactly one component")
    chk.assumptions = ["sha1 is treated as injective"]
    thorough = tier == "thorough"
    rng = random.Random(seed() * 41 + 14)
    r1, _, _ = tlc_ids(False, 15)          # folding reached by the small names: length bound of the transcription
    r2, ids, ncoll = tlc_ids(thorough, 214)
    r3, _, ncoll_old = tlc_ids(thorough, 214, weak=["OldSplit"])     # the split function before the fix of F17 must show additional collisions
    if not (ncoll_old and ncoll is not None and ncoll_old > ncoll):
        chk.undecided.append("TempDir.tla: the weakened split (F17) shows no additional collisions (%s vs %s) - identity space too small?" % (ncoll_old, ncoll))
    else:
        chk.extra["weak_variants_refuted"] = ["OldSplit -> %d colliding pairs instead of %d" % (ncoll_old, ncoll)]
    for r in (r1, r2):
        if r.error or "Assumption" in r.out and "is false" in r.out:
            chk.undecided.append("TempDir.tla: %s" % (r.error or "an assumption of the transcription is false")[-300:])
        else:
            chk.add_tlc(r)
    if not ids:
        return chk.finish()
    chk.states = max(chk.states, len(ids)); chk.transitions = max(chk.transitions, ncoll or 1)
    reqs = [req_of(i) for i in ids]
    a1 = call_probe(reqs)
    order = list(range(len(reqs))); rng.shuffle(order)
    a2s = call_probe([reqs[k] for k in order])
    a2 = [None] * len(reqs)
    for pos, k in enumerate(order): a2[k] = a2s[pos]
    chk.evaluations += 2 * len(reqs)
    bydir = {}
    drift = 0
    for i, x, y in zip(ids, a1, a2):
        d = x.get("dir")
        if d is None:
            chk.undecided.append("probe failed for %s: %s" % (i, x)); continue
        if d != y.get("dir"):
            chk.violation("the same task identity got two different temp directories: %s vs %s" % (d, y.get("dir")), dict(identity=i))
        if "/" in d or len(d.encode()) > 255 or d in (".", ".."):
            chk.violation("temp directory name is not a single valid path segment of <= 255 bytes: %r" % d[:80], dict(identity=i))
        if d != i["prefix"] + "." + hashlib.sha1(i["pre"].encode()).hexdigest():
            drift += 1
        bydir.setdefault(d, []).append(i)
    if drift:
        print("DRIFT: %d of %d real names differ from the transcription's prediction" % (drift, len(ids)), flush=True)
    f4 = 0
    for d, group in bydir.items():
        if len(group) < 2: continue
        if len({(g["pre"], g["prefix"]) for g in group}) == 1:
            f4 += 1
            continue
        chk.violation("different task identities share the temp directory %s: %s" % (d, [{k: g[k] for k in ("name", "x", "y", "k", "t")} for g in group[:3]]), dict(group=group[:6]))
    if f4:
        g = [grp for grp in bydir.values() if len(grp) > 1][0]
        if findings.active("F4"):
            chk.known_finding("F4", "%d groups of identities with equal concatenation of hash pieces share a temp dir, e.g. %s" % (f4, [{k: x[k] for k in ("x", "y", "k")} for x in g[:2]]))
        else:
            chk.violation("identities with equal concatenation of pieces share a temp dir: %s" % g[:2], dict(group=g[:4]))
    # pairs differing in exactly one component (non-trivial count)
    idx = {}
    for i in ids:
        for comp in ("name", "x", "y", "k", "t"):
            key = (comp,) + tuple(i[c] for c in ("name", "x", "y", "k", "t") if c != comp)
            idx.setdefault(key, set()).add(i[comp])
    chk.nontrivial = set(k for k, v in idx.items() if len(v) > 1)
    # random long identities: length bound and distinctness
    alph = "abcXYZ019_.-<>| /:;=?@[]^\\"
    reqs, metas = [], []
    for n in range(400 if thorough else 120):
        name = "".join(rng.choice(alph) for _ in range(rng.choice([1, 5, 50, 150, 200, 202, 210, 213, 214, 215, 221, 230, 300, 400])))
        path = "/".join("".join(rng.choice("abc01._-") for _ in range(rng.randint(1, 60))) for _ in range(rng.randint(1, 6)))
        params = {("k%d" % j): "".join(rng.choice("abc019") for _ in range(rng.randint(1, 40))) for j in range(rng.randint(0, 4))}
        reqs.append(dict(op="tempdir", name=name, ins={"in": path}, params=params, tags={})); metas.append((name, path, params))
    seen = {}
    for q, a in zip(reqs, call_probe(reqs)):
        chk.evaluations += 1
        d = a.get("dir", "")
        if "/" in d or len(d.encode()) > 255 or not d:
            chk.violation("temp directory name for a %d-byte process name is %d bytes / not a single segment" % (len(q["name"]), len(d.encode())), dict(request=q, dir=d))
        key = json.dumps([q["name"], q["ins"], q["params"]], sort_keys=True)
        if d in seen and seen[d] != key:
            chk.violation("two random identities share a temp directory", dict(a=json.loads(seen[d]), b=q, dir=d))
        seen[d] = key
    # identities with joined in-ports (sub-stream members) beside ordinary in-ports whose names sort before / after the joined one:
    # every component must matter, the carrier's random name must not
    subs_ids = []
    for members in (["a.txt", "b.txt"], ["a.txt"], ["b.txt", "a.txt"], []):
        for other in ({}, {"zhead": "h1.txt"}, {"zhead": "h2.txt"}, {"ahead": "h1.txt"}, {"ahead": "h1.txt", "zhead": "h2.txt"}, {"ahead": "h1.txt", "zhead": "h3.txt"}):
            for second in (None, ["a.txt"], ["c.txt"]):
                sub = {"files": members}
                if second is not None: sub["more"] = second
                subs_ids.append(dict(op="tempdir", name="cat", ins=other, subs=sub, params={}, tags={}))
    b1 = call_probe(subs_ids); b2 = call_probe(list(reversed(subs_ids)))[::-1]
    seen = {}
    for q, x, y in zip(subs_ids, b1, b2):
        chk.evaluations += 2
        d = x.get("dir")
        if not d:
            chk.undecided.append("probe failed for a sub-stream identity: %s" % x); continue
        if d != y.get("dir"):
            chk.violation("the same task with a joined in-port got two different temp directories (the carrier file has a random name): %s vs %s" % (d, y.get("dir")), dict(identity=q))
        key = json.dumps([q["ins"], q["subs"]], sort_keys=True)
        if d in seen and seen[d] != key:
            a, b = json.loads(seen[d]), [q["ins"], q["subs"]]
            # pieces are concatenated without separator (F4): identities whose concatenations agree are that finding, everything else is new
            cat = lambda z: "".join(v for _, v in sorted(z[0].items())) + "".join("".join(v) for _, v in sorted(z[1].items()))
            if cat(a) == cat(b) and findings.active("F4"):
                chk.notes.append("F4-class collision among sub-stream identities")
            else:
                chk.violation("tasks with joined in-ports that differ in an in-port / a sub-stream member share the temp directory %s: %s vs %s" % (d, a, b), dict(a=a, b=b))
        seen.setdefault(d, key)
    chk.nontrivial.add("substream-identities:%d" % len(subs_ids))
    # stability across runs of a task with a joined in-port (end to end, two fresh directories)
    for nitems in (3, 0, 1):
        inst = dict(name="JN", max=2, bufsize=4, procs=[zoo.src("s", zoo.items(nitems)), zoo.cmd("a", ["in"]), dict(name="ss", kind="substream"),
                                                        dict(name="cat", kind="cmd", ins=["in"], outs=["out"], joins={"in": " "}, arg="echo 'ARGS[{i:in|join: }]' > {o:out}")],
                    edges=[zoo.E("s.out", "a.in"), zoo.E("a.out", "ss.in"), zoo.E("ss.substream", "cat.in")])
        rrs = fc.real_runs(inst, [dict(env={}, bufsize=4), dict(env={}, bufsize=4)])
        tmps = []
        for rr in rrs:
            chk.evaluations += 1
            tmps.append(sorted(e["tmp"] for e in rr.events if e["ev"] == "task.new" and e["proc"] == "cat"))
        if not tmps[0] or not tmps[1]:
            chk.undecided.append("join workflow (%d members) produced no task for 'cat': %s" % (nitems, rrs[0].stderr[-200:]))
        elif tmps[0] != tmps[1]:
            msg = "the same join task (sub-stream of %d files) got different temp directories in two runs: %s vs %s" % (nitems, tmps[0], tmps[1])
            if findings.active("F13"): chk.known_finding("F13", msg)
            else: chk.violation(msg, dict(instance=inst))
    chk.sample(dict(kind="identities", exported_by_tlc=len(ids), collision_pairs_in_transcription=ncoll, real_groups_sharing_a_dir=f4, examples=ids[:3]))
    chk.extra["exhaustive"] = True
    return chk.finish()
