"""C16: only fully wired workflows run; RunTo executes exactly the upstream closure.
Flow.tla's wiring part (RunSet / Driver / sink connections / Unwired) is evaluated by TLC for every case
and bound to the code by the wire.done hook (TWire) and by running the same cases on the real binary."""
import random, json, os, itertools
from vlib import *
import zoo, flowcheck as fc
from zoo import src, psrc, cmd, E
from . import register
import findings

def GA(n=2):   # names that contain each other: RunTo("al") must not select al_qc
    return dict(name="GA", max=2, bufsize=2, procs=[src("fetch", zoo.items(n)), cmd("al", ["in"]), cmd("al_qc", ["in"]), cmd("report", ["in"])],
                edges=[E("fetch.out", "al.in"), E("al.out", "al_qc.in"), E("al_qc.out", "report.in")])
def GP(n=2):   # a parameter producer that itself has an upstream process
    return dict(name="GP", max=2, bufsize=2,
                procs=[psrc("ls", ["x", "y", "z"][:n]), dict(name="pc", kind="pcomb", params=["v"]), src("s", zoo.items(n)),
                       cmd("a", ["in"], ["out"], ["p"]), cmd("post", ["x"], ["out"])],
                edges=[E("s.out", "a.in"), E("a.out", "post.x")], pedges=[E("ls.out", "pc.v"), E("pc.v>", "a.p")])
def GB(n=2):   # two independent branches and a join further down
    return dict(name="GB", max=2, bufsize=2,
                procs=[src("s1", zoo.items(n, "a")), src("s2", zoo.items(n, "b")), cmd("p1", ["in"]), cmd("p10", ["in"]), cmd("j", ["l", "r"]), cmd("tail", ["x"])],
                edges=[E("s1.out", "p1.in"), E("s2.out", "p10.in"), E("p1.out", "j.l"), E("p10.out", "j.r"), E("j.out", "tail.x")])

def GM(n=2):   # process names with a regular-expression metacharacter and twins that differ only there: RunTo("c.v1") means that name, RunToRegex("^c.v1$") all three
    return dict(name="GM", max=2, bufsize=2, procs=[src("s", zoo.items(n)), cmd("c.v1", ["in"]), cmd("c_v1", ["in"]), cmd("cxv1", ["in"]), cmd("post", ["in"])],
                edges=[E("s.out", "c.v1.in"), E("s.out", "c_v1.in"), E("s.out", "cxv1.in"), E("c.v1.out", "post.in")])
def bases(thorough):
    b = [zoo.Z1(n=2), zoo.Z3(n=2), zoo.Z6(n=2), GA(), GP(), GB(), zoo.Z16(n=2)]
    if thorough:
        b += [zoo.Z7(n=2), zoo.Z2(n=2), zoo.Z9(n=2), zoo.Z4(n=2)]
    return b

def cmd_names(inst):
    return [p["name"] for p in inst["procs"] if p["kind"] in ("cmd", "gofunc")]

def runto_cases(inst, rng, thorough):
    names = [p["name"] for p in inst["procs"]]
    cmds = cmd_names(inst)
    sets = [[c] for c in cmds]
    if len(cmds) >= 2:
        pairs = list(itertools.combinations(cmds, 2))
        sets += [list(p) for p in (pairs if thorough else rng.sample(pairs, min(2, len(pairs))))]
    # targets on different branches (neither upstream of the other), in both orders, by name and by process: always present
    ni = norm_inst(inst)
    ups = {c: set() for c in names}
    for e in ni["edges"] + ni["pedges"]:
        ups[e["tp"]].add(e["fp"])
    def closure(x):
        seen, todo = set(), [x]
        while todo:
            y = todo.pop()
            for z in ups.get(y, ()):
                if z not in seen: seen.add(z); todo.append(z)
        return seen
    branchy = [(a, b) for a in cmds for b in cmds if a != b and a not in closure(b) and b not in closure(a)]
    fixed = []
    for a, b in branchy[:2]:
        fixed += [("runto", [a, b]), ("runtoprocs", [a, b])]
    cases = []
    for mode, tg in fixed:
        i = dict(inst); i["mode"] = mode; i["targets"] = tg
        cases.append(i)
    for tg in sets:
        for mode in (("runto", "runtoregex", "runtoprocs") if thorough else (rng.choice(["runto", "runtoprocs"]), "runtoregex")):
            i = dict(inst); i["mode"] = mode; i["targets"] = tg
            if mode == "runtoregex":
                i["patterns"] = ["^(%s)$" % "|".join(tg)] if rng.random() < 0.5 else ["^%s$" % t for t in tg]
            cases.append(i)
    return cases

def unwired_cases(inst):
    ni = norm_inst(inst)
    cases = []
    for p in ni["procs"]:
        for port in [p["name"] + "." + x for x in p["ins"] + (p["params"] if p["kind"] != "pcomb" else p["params"])]:
            i = dict(inst)
            i["edges"] = [e for e in inst.get("edges", []) if e["to"] != port]
            i["pedges"] = [e for e in inst.get("pedges", []) if e["to"] != port]
            i["feeds"] = [f for f in inst.get("feeds", []) if f["to"] != port]
            i["_unwired"] = port
            cases.append(i)
    return cases

@register("C16")
def check_C16(tier):
    chk = Check("C16", tier)
    chk.rule = ("per base graph: every single in/param port left unconnected (Run must refuse before any command) and target sets x "
                "{RunTo, RunToRegex, RunToProcs}; Flow.tla evaluates run set, driver, sink connections and Expected for each case (closed model checked on "
                "the small ones), the real binary runs the same wfspec: wire.done is bound to the static wiring by FlowTrace (TWire), executed keys and "
                "files are compared with Expected; non-trivial = distinct (graph, removed port) and (graph, mode, target set)")
    chk.assumptions = ["<= 1 process without out-ports in a run set (two are rejected by scipipe: documented limitation)"]
    thorough = tier == "thorough"
    rng = random.Random(seed() * 19 + 16)
    build("wfdriver")
    cases = []
    for b in bases(thorough):
        cases += [("runto", c) for c in runto_cases(b, rng, thorough)]
        cases += [("unwired", c) for c in unwired_cases(b)]
    # plain Run of workflows with out-ports nobody consumes (file and parameter out-ports, of processes and of components): they end in
    # the sink and must be drained - the workflow completes with every task of Expected
    for d in (zoo.Z19(n=3), zoo.PC2S(n=4, buf=1), zoo.PC2S(n=8, buf=2), zoo.Z2(n=3), zoo.Z7(n=3), zoo.Z21(n=6, buf=2), zoo.Z21(n=5, buf=1), zoo.Z15()):
        d = dict(d); d["mode"] = "run"; d["targets"] = []
        cases.append(("runto", d))
    # run sets consisting of exactly one process without out-ports: the only process of a workflow, or a parameter-driven leaf named as RunTo target
    leafp = dict(name="LEAFP", max=2, bufsize=2, procs=[src("s", zoo.items(2)), cmd("a", ["in"]), cmd("note", [], [], ["p"])],
                 edges=[E("s.out", "a.in")], feeds=[dict(to="note.p", values=["k1", "k2", "k3"])])
    for mode, inst0, tg in (("runto", zoo.Z15(), ["solo"]), ("runtoprocs", zoo.Z15(), ["solo"]), ("runto", leafp, ["note"]), ("runtoregex", leafp, ["note"])):
        d = dict(inst0); d["mode"] = mode; d["targets"] = tg
        if mode == "runtoregex": d["patterns"] = ["^note$"]
        cases.append(("runto", d))
    for mode, tg, pats in (("runto", ["c.v1"], None), ("runtoprocs", ["c.v1"], None), ("runto", ["c_v1"], None), ("runto", ["post", "cxv1"], None),
                           ("runtoregex", ["c.v1", "c_v1", "cxv1"], ["^c.v1$"]), ("runtoregex", ["c.v1"], ["^c\\.v1$"])):
        d = GM(); d["mode"] = mode; d["targets"] = tg
        if pats: d["patterns"] = pats
        cases.append(("runto", d))
    # closed model on a sample of the RunTo cases (the static wiring is evaluated for all of them by expected())
    sample = [c for k, c in cases if k == "runto" and c["mode"] != "run"]
    rng.shuffle(sample)
    def closed(inst):
        return inst, fc.closed_model(inst, liveness=False, workers=4, timeout=300)
    for inst, r in pmap(closed, sample[: (12 if thorough else 4)], workers=4):
        if r.error: chk.undecided.append("closed model %s %s: %s" % (inst["name"], inst["targets"], r.error[-200:])); continue
        chk.add_tlc(r)
        if not r.ok:
            chk.undecided.append("Flow.tla RunTo %s of %s violates %s" % (inst["targets"], inst["name"], r.violated or "deadlock"))
        else:
            chk.sample(dict(kind="closed-model", instance=inst["name"], mode=inst["mode"], targets=inst["targets"], distinct_states=r.distinct))
    def one(kc):
        kind, inst = kc
        exp = fc.expected(inst)
        if kind == "unwired":
            rrs = fc.real_runs(inst, [dict(env={}, bufsize=2, timeout=20)])
            return kind, inst, exp, rrs, None, None
        rrs = fc.real_runs(inst, [dict(env={}, bufsize=2, timeout=25), dict(env={"VERIF_JITTER": str(rng.randrange(10**6))}, bufsize=1, timeout=25)])
        ok = [r for r in rrs if not r.timeout and not r.deadlock and not r.panic]
        det, mon, rows = fc.validate_traces(inst, exp, ok) if ok else (None, None, [])
        return kind, inst, exp, rrs, det, mon
    for kind, inst, exp, rrs, det, mon in pmap(one, cases, workers=10):
        chk.evaluations += len(rrs)
        for r in (det, mon):
            if r is not None and not r.error: chk.add_tlc(r)
        label = "%s %s" % (inst["name"], ("unconnected " + inst["_unwired"]) if kind == "unwired" else "%s%s" % (inst["mode"], inst["targets"]))
        replay = dict(instance={k: v for k, v in norm_inst(inst).items()}, case=label)
        for rr in rrs:
            ran = exec_counts(rr.cmdlog)
            if kind == "unwired":
                if not exp["wiringfails"]:
                    chk.undecided.append("model does not see %s as unwired" % label); break
                if rr.timeout or rr.deadlock:
                    fid = "F15" if findings.active("F15") and findings.sig_F15(inst) else None
                    msg = "workflow with %s hangs instead of being refused" % label
                    if fid: chk.known_finding(fid, msg)
                    else: chk.violation(msg, replay)
                elif rr.rc == 0 or rr.completed:
                    chk.violation("workflow with %s was not refused (rc=%s, completed=%s)" % (label, rr.rc, rr.completed), replay)
                elif ran:
                    chk.violation("commands %s were executed before the workflow with %s was refused" % (sorted(ran)[:4], label), replay)
                else:
                    chk.nontrivial.add("unwired:" + label)
            else:
                if rr.timeout or rr.deadlock or rr.panic:
                    chk.violation("%s did not return (%s)" % (label, "Go deadlock report" if rr.deadlock else ("panic: " + rr.stderr[-200:] if rr.panic else "timeout")), replay); continue
                if rr.rc != 0 or not rr.completed:
                    chk.violation("%s failed: rc=%s %s" % (label, rr.rc, rr.stderr[-300:].replace("\n", " | ")), replay); continue
                extra = sorted(k for k in ran if k.split(":")[0] not in exp["runset"])
                if extra:
                    chk.violation("%s executed commands of processes outside the upstream closure: %s" % (label, extra[:5]), replay)
                missing = sorted(set(exp["execkeys"]) - set(ran))
                if missing:
                    chk.violation("%s did not execute tasks of the closure: %s" % (label, missing[:5]), replay)
                if not extra and not missing:
                    chk.nontrivial.add("runto:" + label)
        if kind == "runto" and det is not None:
            if det.ok and mon.ok: chk.traces += len(rrs)
            for res, nm in ((det, "acceptor"), (mon, "monitor")):
                if res.error: chk.undecided.append("%s on %s: %s" % (nm, label, res.error[-200:]))
                elif res.violated and fc.prop_of_invariant(res.violated) == "C16":
                    chk.violation("invariant %s violated on a recorded trace (%s)" % (res.violated, label), replay)
                elif res.rejected and nm == "acceptor":
                    print("DRIFT: acceptor rejected %s at line %d: %s" % (label, res.rejected[0], res.rejected[1][:200]), flush=True)
                    if '"wire"' in res.rejected[1]:
                        chk.violation("the run set / driver / sink connections computed by the implementation differ from the upstream closure (%s): %s"
                                      % (label, res.rejected[1][:300]), replay)
        chk.sample(dict(kind=kind, case=label, runs=len(rrs)), limit=8)
    return chk.finish()
