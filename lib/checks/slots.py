"""C06 (slot bound) and C07 (slots dead-lock free, work conserving, oversize rejected):
Slots.tla model-checked over all MaxSlots / core assignments; slot events of saturating real
workloads validated against SlotsTrace.tla; commands' own intervals; gate-driven replay of the
counter-example of the weakened model (NoAcqMutex); rendezvous workloads; oversize rejection."""
import random, json, os, time
from vlib import *
import zoo, flowcheck as fc
from . import register

def slots_cfg(n, maxmax, weak=(), rendezvous=False, props=True):
    s = "CONSTANTS N = %d\n MaxMax = %d\n Weak = {%s}\n Rendezvous = %s\nSPECIFICATION Spec\n" % (
        n, maxmax, ",".join('"%s"' % w for w in weak), "TRUE" if rendezvous else "FALSE")
    s += "INVARIANTS TypeOK C06_Bound C06_TokensAreHeld C06_RunningHoldsAll C06_IdleHoldsNone C07_MutexExclusive\n"
    if props:
        s += "PROPERTIES C07_Progress C07_EachRuns\n"
    return s

def normalize_slots(events, mx, cores=None):
    """cores: CoresPerTask as CONFIGURED per process (the property speaks about those); the value the task
    logged is only used for processes the instance does not describe"""
    rows = [dict(e="header", max=mx)]
    for ev in events:
        e = ev["ev"]
        if e in ("exec.begin",):
            proc = str(ev.get("task", "")).split(":")[0]
            rows.append(dict(e=e, g=ev["g"], cores=(cores or {}).get(proc, ev["cores"])))
        elif e in ("exec.skip", "slots.lock", "slots.unlock", "slots.dep.done", "slots.rel.begin", "cmd.start", "cmd.end"):
            rows.append(dict(e=e, g=ev["g"]))
    return rows

def saturating_instance(rng, k):
    """several processes with different CoresPerTask competing for few slots"""
    mx = rng.choice([1, 2, 3, 4, 5])
    nproc = rng.choice([1, 2, 3])
    n = rng.choice([4, 6, 8])
    procs = [zoo.src("s", zoo.items(n))]
    edges = []
    for i in range(nproc):
        c = rng.randint(1, mx)
        procs.append(zoo.cmd("w%d" % i, ["in"], ["out"], cores=c))
        if rng.random() < 0.3:
            procs[-1]["prepend"] = "env VERIF_PREPENDED=1"      # Process.Prepend: same slot accounting as any other task
        edges.append(zoo.E("s.out", "w%d.in" % i))
    inst = dict(name="SAT%d" % k, max=mx, bufsize=rng.choice([1, 4, 128]), procs=procs, edges=edges,
                ctl={"ALL.sleep": rng.choice(["0.02", "0.05"])})
    return inst

def overlap_peak(rr, inst):
    """peak of sum(cores) over the commands' OWN start/end stamps (S..E lines): a sound lower bound"""
    cores = {p["name"]: p.get("cores", 1) for p in inst["procs"]}
    evs = []
    open_ = {}
    for r in rr.cmdlog:
        proc = r["key"].split(":")[0]
        if r["tag"] == "S":
            open_[(r["pid"], r["key"])] = r["ts"]
        elif r["tag"] == "E" and (r["pid"], r["key"]) in open_:
            evs.append((open_.pop((r["pid"], r["key"])), +cores.get(proc, 1)))
            evs.append((r["ts"], -cores.get(proc, 1)))
    evs.sort(key=lambda x: (x[0], x[1]))
    cur = peak = 0
    for _, d in evs:
        cur += d; peak = max(peak, cur)
    return peak

def model_part(chk, tier, rendezvous_only=False):
    n = 4 if tier == "thorough" else 3
    runs = [("all core assignments", slots_cfg(n, 4), True)]
    runs.append(("rendezvous (tasks that fit together)", slots_cfg(4 if tier == "thorough" else 3, 4, rendezvous=True), True))
    for label, cfg, must_pass in runs:
        r = run_tlc("Slots", "s.cfg", cfgtext=cfg, workers=8, timeout=900, heap="6g")
        if r.error: chk.undecided.append("Slots.tla %s: %s" % (label, r.error[-200:])); continue
        chk.add_tlc(r); chk.evaluations += 1
        if not r.ok:
            chk.undecided.append("Slots.tla %s violated %s in the faithful model" % (label, r.violated or "deadlock"))
        else:
            chk.nontrivial.add("model:" + label)
            chk.sample(dict(kind="closed-model", config=label, N=n, MaxMax=4, distinct_states=r.distinct))
    for w, expect in (("NoAcqMutex", "deadlock"), ("ReleaseBeforeEnd", "C06"), ("OneTokenPerTask", "C06"), ("LockedRelease", "deadlock")):
        r = run_tlc("Slots", "s.cfg", cfgtext=slots_cfg(3, 3, weak=[w], props=False), workers=4, timeout=300)
        chk.add_tlc(r)
        got = r.violated or ("deadlock" if r.deadlock else None)
        if not got:
            chk.undecided.append("weakened Slots model %s found no counter-example" % w)
        else:
            chk.extra.setdefault("weak_variants_refuted", []).append("%s -> %s" % (w, got))

def real_saturating(chk, tier, own):
    rng = random.Random(seed() * 31 + 6)
    build("wfdriver")
    insts = [saturating_instance(rng, k) for k in range(24 if tier == "thorough" else 8)]
    insts.append(zoo.Z13(n=4, mx=3)); insts.append(zoo.Z13(n=3, mx=4))
    # the smallest configuration (one slot) and prepended commands with several cores, always present
    insts.append(dict(name="SATONE", max=1, bufsize=4, procs=[zoo.src("s", zoo.items(4)), zoo.cmd("w0", ["in"], ["out"]), zoo.cmd("w1", ["in"], ["out"])],
                      edges=[zoo.E("s.out", "w0.in"), zoo.E("s.out", "w1.in")], ctl={"ALL.sleep": "0.03"}))
    pp = dict(name="SATPREPEND", max=3, bufsize=4, procs=[zoo.src("s", zoo.items(5)), zoo.cmd("w0", ["in"], ["out"], cores=2), zoo.cmd("w1", ["in"], ["out"], cores=3)],
              edges=[zoo.E("s.out", "w0.in"), zoo.E("s.out", "w1.in")], ctl={"ALL.sleep": "0.03"})
    pp["procs"][1]["prepend"] = "env VERIF_PREPENDED=1"; pp["procs"][2]["prepend"] = "env VERIF_PREPENDED=2"
    insts.append(pp)
    # a 2-core task becomes ready while exactly ONE slot is free (it must wait holding it, not run on it): three 1-core tasks fill
    # the three slots, the short one ends first
    insts.append(dict(name="SATPART", max=3, bufsize=4,
                      procs=[zoo.src("s", zoo.items(3)), zoo.cmd("w", ["in"], ["out"]), zoo.src("t", zoo.items(2, "t")), zoo.cmd("big", ["in"], ["out"], cores=2)],
                      edges=[zoo.E("s.out", "w.in"), zoo.E("t.out", "big.in")],
                      ctl={"w:1.sleep": "0.7", "w:2.sleep": "0.7", "w:3.sleep": "0.15", "big.sleep": "0.3"}))
    # Go-function tasks (CustomExecute) beside shell tasks, one slot and several slots, several cores per Go-function task
    insts.append(dict(name="SATGO1", max=1, bufsize=4, procs=[zoo.src("s", zoo.items(6)), zoo.cmd("g", ["in"], ["out"], kind="gofunc")],
                      edges=[zoo.E("s.out", "g.in")], ctl={"ALL.sleep": "0.05"}))
    insts.append(dict(name="SATGO4", max=4, bufsize=4, procs=[zoo.src("s", zoo.items(5)), zoo.cmd("g", ["in"], ["out"], cores=2, kind="gofunc"), zoo.cmd("w", ["x"], ["out"]),
                                                               zoo.cmd("v", ["in"], ["out"], cores=1)],
                      edges=[zoo.E("s.out", "g.in"), zoo.E("g.out", "w.x"), zoo.E("s.out", "v.in")], ctl={"ALL.sleep": "0.05"}))
    # more cores per task than the machine has CPUs (the slots are an accounting device, not CPU affinity)
    ncpu = os.cpu_count() or 16
    insts.append(dict(name="SATBIG", max=2 * ncpu + 8, bufsize=4, procs=[zoo.src("s", zoo.items(4)), zoo.cmd("big", ["in"], ["out"], cores=ncpu + 8), zoo.cmd("one", ["in"], ["out"], cores=1)],
                      edges=[zoo.E("s.out", "big.in"), zoo.E("s.out", "one.in")], ctl={"ALL.sleep": "0.05"}))
    # re-run shape: some outputs exist already (skipped tasks must not touch the slots)
    pre = saturating_instance(rng, 99); pre["pre"] = ["w0.out_2", "w0.out_3"]; insts.append(pre)
    # streaming producer/consumer pairs compete for the slots like everybody else. n streamed items need at least n + 1 slots (Flow.tla:
    # all producers can acquire first) - the property states 2n -, so two streamed items on 4 / 5 slots; the saturation comes from "w"
    for mx in (4, 5):
        insts.append(dict(name="SATSTREAM%d" % mx, max=mx, bufsize=4,
                          procs=[zoo.src("s", zoo.items(6)), zoo.src("t", zoo.items(2, "t")), zoo.cmd("w", ["in"], ["out"], cores=1),
                                 dict(name="p", kind="cmd", ins=["in"], outs=["out"], streams=["out"], cores=1),
                                 zoo.cmd("c", ["in"], ["out"], cores=1)],
                          edges=[zoo.E("s.out", "w.in"), zoo.E("t.out", "p.in"), zoo.E("p.out", "c.in")],
                          ctl={"ALL.sleep": "0.04"}))
    def one(inst):
        vs = fc.jitter_variants(random.Random(rng.random()), 3 if tier == "quick" else 6, bufs=(inst["bufsize"],))
        rrs = fc.real_runs(inst, vs, timeout=60)
        rows = []
        conf = {p["name"]: p.get("cores", 1) for p in inst["procs"]}
        for rr in rrs:
            rows += normalize_slots(rr.events, inst["max"], conf)
        res = run_tlc("SlotsTrace", "SlotsTrace.cfg", files={"trace.ndjson": ndjson(rows)}, workers=1, timeout=300)
        return inst, rrs, res, len(rows)
    for inst, rrs, res, nrows in pmap(one, insts, workers=8):
        chk.evaluations += len(rrs)
        ninst = norm_inst(inst)
        ntasks = sum(len(p["items"]) for p in ninst["procs"]) * max(1, len(ninst["procs"]) - 1)
        if ntasks * min(p["cores"] for p in ninst["procs"] if p["kind"] in ("cmd", "gofunc")) > ninst["max"]:
            chk.nontrivial.add(json.dumps([ninst["max"], sorted(p["cores"] for p in ninst["procs"] if p["kind"] in ("cmd", "gofunc")), ntasks]))
        for rr in rrs:
            if rr.timeout or rr.deadlock:
                msg = "saturating workload %s (max=%d) did not finish: %s" % (inst["name"], inst["max"], "Go runtime deadlock report" if rr.deadlock else "timeout")
                if "C07" in own: chk.violation(msg, dict(instance=ninst, variant=rr.variant, stderr=rr.stderr[-800:]))
                # what the commands logged before the run got stuck is still evidence about concurrently executing cores
                peak = overlap_peak(rr, inst)
                if peak > inst["max"] and "C06" in own:
                    chk.violation("commands' own start/end stamps show %d cores executing at once, maxConcurrentTasks=%d (%s; the run later stopped making progress)" % (peak, inst["max"], inst["name"]),
                                  dict(instance=ninst, variant=rr.variant, cmdlog=rr.cmdlog[:60]))
                continue
            if rr.rc != 0:
                chk.undecided.append("saturating workload %s failed rc=%s: %s" % (inst["name"], rr.rc, rr.stderr[-200:])); continue
            caps = {e["max"] for e in rr.events if e["ev"] == "wire.done"}
            if caps - {inst["max"]} and "C06" in own:
                chk.violation("workflow created with maxConcurrentTasks=%d runs with %s slot tokens (%s)" % (inst["max"], sorted(caps), inst["name"]),
                              dict(instance=ninst, variant=rr.variant))
            peak = overlap_peak(rr, inst)
            if peak > inst["max"] and "C06" in own:
                chk.violation("commands' own start/end stamps show %d cores executing at once, maxConcurrentTasks=%d (%s)" % (peak, inst["max"], inst["name"]),
                              dict(instance=ninst, variant=rr.variant, cmdlog=rr.cmdlog[:60]))
        if res.error:
            chk.undecided.append("SlotsTrace on %s: %s" % (inst["name"], res.error[-300:]))
        else:
            chk.add_tlc(res)
            if res.violated:
                prop = fc.prop_of_invariant(res.violated.replace("S_", ""))
                if prop in own:
                    chk.violation("invariant %s violated on slot events recorded from the implementation (%s, max=%d)" % (res.violated, inst["name"], inst["max"]),
                                  dict(instance=ninst, tlc=res.out[-2500:]))
                else:
                    chk.notes.append("other-property %s" % res.violated)
            elif res.ok:
                chk.traces += len(rrs)
        chk.sample(dict(kind="saturating-real-runs", instance=inst["name"], max=inst["max"],
                        cores=[p.get("cores", 1) for p in inst["procs"] if p["kind"] == "cmd"], runs=len(rrs), slot_events=nrows), limit=8)

def inductive_part(chk):
    """unbounded-length argument with Apalache: IndInv is inductive and implies the bound, for every MaxSlots in 1..6 and
    every core assignment of 6 tasks at once (constants fixed by CInit); a weakened copy must fail (vacuity)."""
    obligations = [("Init => IndInv", ["--cinit=CInit", "--init=Init", "--inv=IndInv", "--length=0"]),
                   ("IndInv /\\ Next => IndInv'", ["--cinit=CInit", "--init=IndInit", "--inv=IndInv", "--length=1"]),
                   ("IndInv => C06_Bound", ["--cinit=CInit", "--init=IndInit", "--inv=C06_Bound", "--length=0"])]
    res = pmap(lambda o: (o[0], run_apalache("SlotsInd", o[1])), obligations, workers=3)
    done = 0
    for name, (ok, txt) in res:
        if ok is True: done += 1
        elif ok is False: chk.undecided.append("Apalache: obligation '%s' of the slot invariant fails - specification changed?" % name)
        else: chk.undecided.append("Apalache did not decide '%s': %s" % (name, txt[-200:]))
    ok, txt = run_apalache("SlotsInd", obligations[1][1], edit=('ReleaseOne(t) == /\\ pc[t] = "ended"', 'ReleaseOne(t) == /\\ pc[t] \\in {"ended", "running"}'))
    if ok is not False:
        chk.undecided.append("Apalache: the weakened slot model (release while running) is not refuted: %s" % txt[-100:])
    chk.extra["inductive_invariant"] = dict(tool="apalache-mc 0.58", N=6, MaxMax=6, obligations=len(obligations), discharged=done, weakened_copy_refuted=(ok is False))

@register("C06")
def check_C06(tier):
    chk = Check("C06", tier)
    chk.rule = ("Slots.tla: all MaxSlots in 1..4 x all core assignments of N tasks, token-by-token; real: saturating mixed-core "
                "workloads (ready tasks >> slots), slot events validated against SlotsTrace.tla, commands' own intervals; "
                "non-trivial = distinct (max, core multiset, #tasks) with more ready work than slots")
    chk.assumptions = ["hook placement makes logged counters lower bounds of the real ones (DESIGN 5/C06)"]
    model_part(chk, tier)
    inductive_part(chk)
    real_saturating(chk, tier, {"C06"})
    return chk.finish()

# ---------------------------------------------------------------------------------------------
def gate_scenario(chk):
    """Replay of the counter-example of Weak={NoAcqMutex}: Lock(1) Deposit(1) Lock(2) Deposit(2) ...
    forced with scheduler gates inside IncConcurrentTasks. On code with the mutex the second task cannot
    deposit (gate marked infeasible, run completes); without it both hold one of two tokens: dead-lock."""
    inst = dict(name="GATE", max=2, bufsize=4, procs=[zoo.src("s", zoo.items(2)), zoo.cmd("a", ["in"], ["out"], cores=2)],
                edges=[zoo.E("s.out", "a.in")])
    sched = 'slots.dep.begin@"i":0#1,slots.dep.begin@"i":0#2,slots.dep.begin@"i":1#1'
    rrs = fc.real_runs(inst, [dict(env={"VERIF_SCHED": sched, "VERIF_GATE_MS": "1200"}, bufsize=4, timeout=30) for _ in range(3)])
    for rr in rrs:
        chk.evaluations += 1
        infeasible = any(e["ev"] == "gate.infeasible" for e in rr.events)
        if rr.deadlock or rr.timeout:
            chk.violation("two 2-core tasks each hold one of two slots and block forever (acquisition not mutually exclusive): %s"
                          % ("Go runtime deadlock report" if rr.deadlock else "timeout"),
                          dict(instance=inst, schedule=sched, events=[e for e in rr.events if e["ev"].startswith("slots") or e["ev"].startswith("gate")][:40]))
        elif rr.rc != 0 or not rr.completed:
            chk.undecided.append("gate scenario failed rc=%s %s" % (rr.rc, rr.stderr[-200:]))
        else:
            chk.nontrivial.add("gate:%s" % infeasible)
    chk.sample(dict(kind="gate-replay", schedule=sched, from_counterexample_of="Slots.tla Weak={NoAcqMutex}", runs=len(rrs)))

def rendezvous_scenarios(chk, tier):
    rng = random.Random(seed() * 17 + 7)
    cases = []
    for k in range(10 if tier == "thorough" else 5):
        mx = rng.choice([2, 3, 4, 6])
        c = rng.choice([c for c in (1, 2, 3) if c <= mx])
        ktasks = mx // c
        if ktasks < 2 and mx >= 2:
            c = 1; ktasks = mx
        cases.append((mx, [(c, ktasks)]))
    cases += [(4, [(2, 1), (1, 2)]), (5, [(3, 1), (2, 1)]), (3, [(1, 3)])]
    def one(case):
        mx, groups = case
        procs, edges, total = [], [], 0
        for i, (c, kt) in enumerate(groups):
            procs.append(zoo.src("s%d" % i, zoo.items(kt, "abc"[i])))
            procs.append(zoo.cmd("w%d" % i, ["in"], ["out"], cores=c))
            edges.append(zoo.E("s%d.out" % i, "w%d.in" % i))
            total += kt
        inst = dict(name="RDV", max=mx, bufsize=8, procs=procs, edges=edges,
                    ctl={"ALL.rendezvous": "g", "rendezvous.g.n": str(total)})
        rrs = fc.real_runs(inst, [dict(env={}, bufsize=8, timeout=40), dict(env={"VERIF_JITTER": "5"}, bufsize=8, timeout=40)])
        return case, inst, rrs
    for case, inst, rrs in pmap(one, cases, workers=6):
        for rr in rrs:
            chk.evaluations += 1
            if rr.rc != 0 or not rr.completed:
                timed = [r for r in rr.cmdlog if r["tag"] == "T"]
                chk.violation("tasks that fit into the free slots together did not execute simultaneously: max=%d groups(cores,tasks)=%s (%s)"
                              % (case[0], case[1], "rendezvous timed out" if timed else "rc=%s %s" % (rr.rc, rr.stderr[-200:])),
                              dict(instance=inst, cmdlog=rr.cmdlog))
            else:
                chk.nontrivial.add("rdv:%s" % json.dumps(case))
    chk.sample(dict(kind="rendezvous", cases=cases[:5]))

def shared_output_scenario(chk, what="one slot, two tasks mapping to the same output file: after the first finished the slot never became free again and the downstream task never ran"):
    """two processes whose tasks map to the same output file compete for ONE slot: the loser waits while the file appears.
    Whatever it then does (run again or skip), the slot must come back: the consumer of both must still get its turn."""
    for order in ("0.3", "0.05"):
        inst = dict(name="SHOUT", max=1, bufsize=2,
                    procs=[zoo.src("s", zoo.items(1)),
                           dict(name="a", kind="cmd", ins=["in"], outs=["out"], outpaths={"out": "o/shared.txt"}, arg="sleep %s; cat {i:in} > {o:out}; echo A >> {o:out}" % order),
                           dict(name="b", kind="cmd", ins=["in"], outs=["out"], outpaths={"out": "o/shared.txt"}, arg="sleep 0.3; cat {i:in} > {o:out}; echo B >> {o:out}"),
                           dict(name="fin", kind="cmd", ins=["x", "y"], outs=["out"], outpaths={"out": "o/fin.txt"}, arg="cat {i:x} {i:y} > {o:out}")],
                    edges=[zoo.E("s.out", "a.in"), zoo.E("s.out", "b.in"), zoo.E("a.out", "fin.x"), zoo.E("b.out", "fin.y")])
        for rr in fc.real_runs(inst, [dict(env={}, bufsize=2, timeout=25), dict(env={"VERIF_JITTER": "5"}, bufsize=2, timeout=25)]):
            chk.evaluations += 1
            if rr.timeout or rr.deadlock:
                chk.violation(what + " (%s)" % ("Go runtime deadlock report" if rr.deadlock else "timeout"),
                              dict(instance=inst, stderr=rr.stderr[-600:]))
            elif rr.rc != 0 or not rr.completed:
                chk.undecided.append("shared-output scenario failed rc=%s %s" % (rr.rc, rr.stderr[-200:]))
            else:
                chk.nontrivial.add("shared-output:" + order)

def behind_slow_head_scenario(chk):
    """5 tasks of one process, 3 slots: task 1 can only finish together with tasks 4 and 5 (rendez-vous), tasks 2 and 3 are quick.
    When 2 and 3 have ended, 1 + 4 + 5 fit into the slots together, so 4 and 5 must be started although the OLDEST started task
    (1) has not finished yet."""
    inst = dict(name="WINDOW", max=3, bufsize=8, procs=[zoo.src("s", zoo.items(5)), zoo.cmd("w", ["in"], ["out"])], edges=[zoo.E("s.out", "w.in")],
                ctl={"w:1.rendezvous": "g", "w:4.rendezvous": "g", "w:5.rendezvous": "g", "rendezvous.g.n": "3"})
    for rr in fc.real_runs(inst, [dict(env={}, bufsize=8, timeout=40), dict(env={"VERIF_JITTER": "3"}, bufsize=1, timeout=40)]):
        chk.evaluations += 1
        if rr.rc != 0 or not rr.completed:
            timed = [r for r in rr.cmdlog if r["tag"] == "T"]
            chk.violation("three 1-core tasks that fit into three free slots did not execute simultaneously: two finished tasks were waiting behind the oldest "
                          "started task of their process and no further task was started (%s)" % ("rendez-vous timed out" if timed else "rc=%s %s" % (rr.rc, rr.stderr[-200:])),
                          dict(instance=inst, cmdlog=rr.cmdlog))
        else:
            chk.nontrivial.add("window")

def multi_release_scenario(chk):
    """4 slots: a 3-core task and a 1-core task run; when the 1-core task ends three 1-core tasks become ready, one of them gets the free
    slot, the other two wait. When the 3-core task releases its three slots AT ONCE, both waiting tasks fit and must start: the three
    rendez-vous with each other."""
    inst = dict(name="WAKE", max=4, bufsize=4,
                procs=[zoo.src("s", ["1"]), zoo.cmd("big", ["in"], ["out"], cores=3), zoo.cmd("trig", ["in"], ["out"]),
                       zoo.cmd("w1", ["x"], ["out"]), zoo.cmd("w2", ["x"], ["out"]), zoo.cmd("w3", ["x"], ["out"])],
                edges=[zoo.E("s.out", "big.in"), zoo.E("s.out", "trig.in"), zoo.E("trig.out", "w1.x"), zoo.E("trig.out", "w2.x"), zoo.E("trig.out", "w3.x")],
                ctl={"big.sleep": "1.0", "trig.sleep": "0.3", "w1.rendezvous": "g", "w2.rendezvous": "g", "w3.rendezvous": "g", "rendezvous.g.n": "3"})
    for rr in fc.real_runs(inst, [dict(env={}, bufsize=4, timeout=40), dict(env={"VERIF_JITTER": "11"}, bufsize=4, timeout=40)]):
        chk.evaluations += 1
        if rr.rc != 0 or not rr.completed:
            timed = [r for r in rr.cmdlog if r["tag"] == "T"]
            chk.violation("a 3-core task released its slots while two 1-core tasks were waiting: they did not both start (tasks that fit into the free slots "
                          "together did not execute simultaneously; %s)" % ("rendez-vous timed out" if timed else "rc=%s %s" % (rr.rc, rr.stderr[-200:])),
                          dict(instance=inst, cmdlog=rr.cmdlog))
        else:
            chk.nontrivial.add("multi-release")

def oversize_scenarios(chk):
    cases = []
    for mx, c in ((1, 2), (2, 3), (3, 5)):
        cases.append((mx, c, "process with out-ports", dict(name="OVR", max=mx, bufsize=2, procs=[zoo.src("s", zoo.items(2)), zoo.cmd("big", ["in"], ["out"], cores=c), zoo.cmd("ok", ["in"], ["out"])],
                    edges=[zoo.E("s.out", "big.in"), zoo.E("s.out", "ok.in")])))
        # the oversize process is the one without out-ports (it becomes the workflow's driver), alone or after a chain
        cases.append((mx, c, "process without out-ports (driver)", dict(name="OVRLEAF", max=mx, bufsize=2, procs=[zoo.src("s", zoo.items(2)), zoo.cmd("ok", ["in"], ["out"]), zoo.cmd("big", ["x"], [], cores=c)],
                    edges=[zoo.E("s.out", "ok.in"), zoo.E("ok.out", "big.x")])))
    cases.append((2, 3, "only process of the workflow", dict(name="OVRSOLO", max=2, bufsize=2, procs=[zoo.cmd("big", [], [], cores=3)], edges=[])))
    for mx, c, label, inst in cases:
        rr = fc.real_runs(inst, [dict(env={}, bufsize=2, timeout=20)])[0]
        chk.evaluations += 1
        ran_big = [r for r in rr.cmdlog if r["key"].startswith("big:")]
        if rr.timeout or rr.deadlock:
            chk.violation("%s asking for %d cores with maxConcurrentTasks=%d hangs instead of being rejected" % (label, c, mx), dict(instance=inst))
        elif rr.rc == 0 or rr.completed or ran_big:
            chk.violation("%s asking for %d cores with maxConcurrentTasks=%d was not rejected (rc=%s, commands of it executed: %d)" % (label, c, mx, rr.rc, len(ran_big)),
                          dict(instance=inst, cmdlog=rr.cmdlog))
        else:
            chk.nontrivial.add("oversize:%d/%d:%s" % (c, mx, label))

@register("C07")
def check_C07(tier):
    chk = Check("C07", tier)
    chk.rule = ("Slots.tla liveness (<>AllDone, every task runs) over all MaxSlots x core assignments incl. the rendezvous configuration; "
                "weakened models must dead-lock; real: saturating mixed-core workloads must finish, SlotsTrace mutual-exclusion invariants, "
                "gate replay of the NoAcqMutex counter-example, rendezvous workloads (k x cores <= max run simultaneously), oversize cores rejected")
    chk.assumptions = ["gates are best effort: an infeasible order is skipped after 1.2 s", "rendezvous waits at most 10 s"]
    model_part(chk, tier)
    build("wfdriver")
    gate_scenario(chk)
    rendezvous_scenarios(chk, tier)
    oversize_scenarios(chk)
    shared_output_scenario(chk)
    behind_slow_head_scenario(chk)
    multi_release_scenario(chk)
    real_saturating(chk, tier, {"C07"})
    return chk.finish()
