"""Filesystem / crash / restart family: TaskFS.tla closed model, histories of real runs
(crash hooks, cleanup, deletion, re-runs) validated against TaskFSTrace.tla, snapshots compared
with the filesystem state the specification predicts, property monitors on the files."""
import json, os, re, random, time, shutil, signal, subprocess, glob
from vlib import *
import flowcheck as fc

FS_INVS = ["C01_Atomic", "C01_Confined", "C02_NoReexec", "C03_Converge", "C03_NoAdopt", "C03_LeftoverStops",
           "C09_NoSilent", "C09_NotPublished", "C11_Lineage", "C10_HasAudit"]
FS_PROPS = ["C01_OnlyRename", "C02_Untouched"]

def fs_cfg(maxruns=3, weak=(), env=("crash", "cleanup", "rerun", "delete"), trace=False):
    s = "CONSTANTS MaxRuns = %d\n Weak = {%s}\n Env = {%s}\n" % (maxruns, ",".join('"%s"' % w for w in weak), ",".join('"%s"' % e for e in env))
    if trace:
        s += "SPECIFICATION TraceSpec\nCONSTRAINT HW\nPOSTCONDITION Accepted\nCHECK_DEADLOCK FALSE\n"
    else:
        s += "SPECIFICATION Spec\nCHECK_DEADLOCK FALSE\nPROPERTIES " + " ".join(FS_PROPS) + "\n"
    s += "INVARIANTS " + " ".join(FS_INVS) + "\n"
    return s

def extras_of(inst, proc, sig):
    pat = inst.get("ctl", {}).get(proc + ".extra", "")
    return [x.replace("%k", sig) for x in pat.split()] if pat else []

def fs_json(inst, exp, faults=None, pre=None):
    tasks = []
    for t in sorted(exp["tasks"], key=lambda t: (t["proc"], t["k"])):
        sig = t["key"].split(":", 1)[1]
        tasks.append(dict(id=t["key"], ins=t["ins"], outs=t["outs"], extras=extras_of(inst, t["proc"], sig)))
    return json.dumps(dict(tasks=tasks, faults=model_faults(faults if faults is not None else norm_inst(inst)["faults"]),
                           pre=pre if pre is not None else norm_inst(inst)["pre"]))

def closed_fs(inst, exp, maxruns=3, weak=(), faults=None, env=("crash", "cleanup", "rerun", "delete"), timeout=600, workers=4):
    return run_tlc("TaskFS", "fs.cfg", files={"fs.json": fs_json(inst, exp, faults)}, cfgtext=fs_cfg(maxruns, weak, env),
                   workers=workers, timeout=timeout, heap="6g")

# ----------------------------------------------------------------------------
# histories on the real binary
# ----------------------------------------------------------------------------
class History:
    def __init__(self, inst, steps, label=""):
        self.inst = inst; self.steps = steps; self.label = label
        self.runs = []; self.rows = []; self.snaps = []; self.problems = []; self.dirmap = {}

def audit_project(rec, exp):
    """real audit record (parsed JSON) -> abstract record [task, ups] of TaskFS.tla"""
    if not rec or not rec.get("ProcessName"):
        return dict(task="", ups=[])
    outs = {path_id(v) for v in (rec.get("OutFiles") or {}).values()}
    t = None
    for x in exp["tasks"]:
        if outs and outs <= set(x["outs"]) and x["proc"] == rec["ProcessName"]:
            t = x
    if t is None:
        return dict(task="?" + rec.get("ProcessName", ""), ups=[])
    ups = []
    upstream = {path_id(k): v for k, v in (rec.get("Upstream") or {}).items()}
    prod = {o for x in exp["tasks"] for o in x["outs"]}
    for i in t["ins"]:
        ups.append(audit_project(upstream.get(i), exp) if i in upstream and i in prod else dict(task="", ups=[]))
    return dict(task=t["key"], ups=ups)

def project(snap, dirmap, inst, pre, exp=None):
    final, kind, audits, extras, tdirs, tmpfiles, unknown = [], {}, [], [], [], {}, []
    auditrec = {}
    extra_names = set()
    for p, v in snap.items():
        parts = p.split("/")
        if parts[0].startswith("_scipipe_tmp"):
            key = dirmap.get(parts[0])
            if key is None:
                unknown.append(parts[0]); continue
            if len(parts) == 1:
                tdirs.append(key); tmpfiles.setdefault(key, [])
            elif v["kind"] == "file":
                rel = "/".join(parts[1:])
                name = path_id(rel) if (rel.endswith(".txt") and "/o/" in "/" + rel) else rel
                tmpfiles.setdefault(key, []).append(name)
            continue
        if v["kind"] != "file":
            continue
        if parts[0] == "o" and p.endswith(".txt"):
            fid = path_id(p); final.append(fid)
            txt = v.get("text") or ""
            whole = txt.startswith("BEGIN %s\n" % fid) and txt.endswith("END %s\n" % fid) and txt.count("BEGIN %s\n" % fid) == 1
            kind[fid] = "complete" if whole else ("user" if fid in pre and (txt.startswith("USER") or txt == "") else "partial")     # partial: not the output of ONE successful command
        elif parts[0] == "o" and p.endswith(".audit.json"):
            fid = path_id(p[:-len(".audit.json")])
            audits.append(fid)
            if exp is not None:
                try:
                    auditrec[fid] = audit_project(json.loads(v.get("text") or "null"), exp)
                except ValueError:
                    auditrec[fid] = dict(task="?unparsable", ups=[])
        elif p not in ("completed.marker", "wf2.log", "wf.log"):
            extras.append(p)
    return dict(final=sorted(final), kind=kind, audits=sorted(audits), auditrec=auditrec, extras=sorted(extras), tdirs=sorted(set(tdirs)),
                tmpfiles={k: sorted(v) for k, v in tmpfiles.items()}, unknown=sorted(set(unknown)))

FAILMAP = [("Existing temp folders found", "fail.tmp"), ("Command failed", "fail.cmd"), ("Missing output temp-file", "fail.ensure"),
           ("injected failure", "fail.cmd")]

def normalize_run(events, hist, first):
    rows = [dict(e="history" if first else "restart")]
    g2task = {}
    skipped = set()
    for ev in events:
        e = ev["ev"]
        if e == "task.new":
            proc, key = task_key(ev["task"])
            hist.dirmap[ev["tmp"]] = key
        if e in ("exec.begin", "exec.skip", "exec.acquired", "cmd.start", "cmd.end", "audit.done", "exec.ensure", "done.recv"):
            proc, key = task_key(ev["task"])
            if e == "exec.begin":
                g2task[ev["g"]] = key
                rows.append(dict(e="exec.begin", task=key))
            elif e == "exec.skip":
                skipped.add(key)
                rows += [dict(e="tmpok", task=key), dict(e="skip", task=key)]
            elif e == "exec.acquired":
                rows += [dict(e="tmpok", task=key), dict(e="noskip", task=key)]
            elif e == "cmd.start": rows.append(dict(e="cmd.start", task=key))
            elif e == "cmd.end": rows.append(dict(e="cmd.end", task=key))
            elif e == "exec.ensure": rows.append(dict(e="ensure", task=key))
            elif e == "done.recv":
                if key not in skipped:      # a skipped task is "done" for the specification at once
                    rows.append(dict(e="done", task=key))
        elif e == "audit.write":
            fid = path_id(ev["path"][:-len(".audit.json")])
            key = g2task.get(ev["g"])
            if key: rows.append(dict(e="audit", task=key, out=fid))
        elif e == "fin.rename.done":
            d = ev["from"].split("/")[0]
            rows.append(dict(e="rename", task=hist.dirmap.get(d, "?"), out=path_id(ev["to"])))
        elif e == "fin.extra.done":
            d = ev["from"].split("/")[0]
            rows.append(dict(e="extra", task=hist.dirmap.get(d, "?"), name=ev["to"]))
        elif e == "fin.rmtmp.begin":
            rows.append(dict(e="extra.end", task=hist.dirmap.get(ev["dir"], "?")))
        elif e == "fin.rmtmp.done":
            rows.append(dict(e="rmtmp", task=hist.dirmap.get(ev["dir"], "?")))
        elif e == "fail":
            kind = "fail.other"
            for pat, k in FAILMAP:
                if pat in ev.get("msg", ""): kind = k
            rows.append(dict(e=kind, task=g2task.get(ev["g"], "?"), msg=ev.get("msg", "")[:160]))
        elif e == "run.return":
            rows.append(dict(e="run.return"))
        elif e == "crash":
            rows.append(dict(e="crash"))
    return rows

def run_history(hist, timeout=40):
    """Execute the steps of hist on one scratch directory. steps: ("run", env-dict or None) | ("cleanup",) |
    ("delete", [ids]) | ("kill", seconds) (external SIGKILL of the group after that time, commands slow)"""
    inst = hist.inst
    d = scratch("hist")
    pre = set(norm_inst(inst)["pre"])
    try:
        prepare_dir(inst, d)
        first = True
        for step in hist.steps:
            if step[0] in ("run", "kill"):
                for f in ("trace.ndjson", "cmdlog", "return_snapshot.json"):
                    try: os.remove(os.path.join(d, f))
                    except FileNotFoundError: pass
                env = dict(step[1] or {}) if step[0] == "run" else {}
                ctl_extra = env.pop("_ctl", None)
                if ctl_extra is not None:
                    for f in glob.glob(os.path.join(d, "ctl", "*.fault")): os.remove(f)
                    for k, v in ctl_extra.items():
                        open(os.path.join(d, "ctl", k), "w").write(v)
                before = snapshot(d)
                if step[0] == "kill":
                    rr = run_real_kill(inst, d, step[1], env=step[2] if len(step) > 2 else None)
                else:
                    rr = run_real(inst, d, env=env, timeout=timeout)
                rr.before = before
                crashed = any(e["ev"] == "crash" for e in rr.events) or step[0] == "kill"
                rr.crashed = crashed
                hist.runs.append(rr)
                rows = normalize_run(rr.events, hist, first)
                if step[0] == "kill":
                    rows = [rows[0], dict(e="extkill")]
                if not crashed:
                    rows.append(dict(e="exit", rc=rr.rc if rr.rc is not None else -1, completed=rr.completed))
                pr = project(rr.snapshot, hist.dirmap, inst, pre, getattr(hist, "exp", None))
                hist.snaps.append(pr)
                if step[0] != "kill":
                    rows.append(dict(e="snap", **{k: pr[k] for k in ("final", "kind", "audits", "auditrec", "extras", "tdirs", "tmpfiles")}))
                hist.rows += rows
                first = False
            elif step[0] == "spec":      # change the run mode / targets of the workflow program between runs
                w = json.load(open(os.path.join(d, "wf.json"))); w.update(step[1])
                json.dump(w, open(os.path.join(d, "wf.json"), "w"))
            elif step[0] == "cleanup":
                had = False
                for p in glob.glob(os.path.join(d, "_scipipe_tmp*")):
                    shutil.rmtree(p, ignore_errors=True); had = True
                for p in glob.glob(os.path.join(d, "o", "*.fifo")):
                    os.remove(p)
                if had: hist.rows.append(dict(e="cleanup"))
            elif step[0] == "truncate":   # a kill inside ioutil.WriteFile (after the truncation, before the write) leaves a 0-byte file
                for rel in step[1]:
                    fp = os.path.join(d, rel)
                    if os.path.exists(fp): open(fp, "w").close()
            elif step[0] == "cleanup_tmp_only":     # the user removes the temp directories but overlooks the FIFOs
                for p in glob.glob(os.path.join(d, "_scipipe_tmp*")):
                    shutil.rmtree(p, ignore_errors=True)
            elif step[0] == "delete":
                for fid in step[1]:
                    for suf in (".txt", ".txt.audit.json") if (len(step) > 2 and step[2]) else (".txt",):
                        try: os.remove(os.path.join(d, "o", fid + suf))
                        except FileNotFoundError: pass
                hist.rows.append(dict(e="delete", file=step[1][0]))
        return hist
    finally:
        rmtree(d)

def run_real_kill(inst, d, after, env=None):
    """start the workflow and SIGKILL its whole process group after `after` seconds"""
    drv = build("wfdriver")
    e = dict(os.environ)
    e.update(VERIF_TRACE=os.path.join(d, "trace.ndjson"), VERIF_CMDLOG=os.path.join(d, "cmdlog"),
             VERIF_CTL=os.path.join(d, "ctl"), VERIF_HELPER=os.path.join(HARNESS, "cmdhelper.sh"),
             SCIPIPE_BUFSIZE=str(inst.get("bufsize", 1)))
    e.update(env or {})
    p = subprocess.Popen([drv, "wf.json"], cwd=d, env=e, stdout=subprocess.PIPE, stderr=subprocess.PIPE, start_new_session=True)
    try:
        out, err = p.communicate(timeout=after)
    except subprocess.TimeoutExpired:
        try: os.killpg(p.pid, signal.SIGKILL)
        except ProcessLookupError: pass
        out, err = p.communicate()
    try: os.killpg(p.pid, signal.SIGKILL)
    except (ProcessLookupError, PermissionError): pass
    rr = RealRun()
    rr.rc = p.returncode; rr.stdout = out.decode(errors="replace"); rr.stderr = err.decode(errors="replace")
    rr.completed = "WFDRIVER_COMPLETED" in rr.stdout; rr.timeout = False; rr.deadlock = False; rr.panic = False
    rr.events = read_events(os.path.join(d, "trace.ndjson")); rr.cmdlog = read_cmdlog(os.path.join(d, "cmdlog"))
    rr.snapshot = snapshot(d); rr.return_snapshot = None; rr.dir = d; rr.wall = after
    return rr

def run_real_watch(inst, d, watch, env=None, timeout=60, interval=0.0005):
    """run the workflow and poll the given final paths: the first time one exists, record its size and whether it is
    complete (ends with its END line). Observing an incomplete file at a final path is a C01 violation by itself."""
    drv = build("wfdriver")
    e = dict(os.environ)
    e.update(VERIF_TRACE=os.path.join(d, "trace.ndjson"), VERIF_CMDLOG=os.path.join(d, "cmdlog"),
             VERIF_CTL=os.path.join(d, "ctl"), VERIF_HELPER=os.path.join(HARNESS, "cmdhelper.sh"),
             SCIPIPE_BUFSIZE=str(inst.get("bufsize", 1)))
    e.update(env or {})
    p = subprocess.Popen([drv, "wf.json"], cwd=d, env=e, stdout=subprocess.DEVNULL, stderr=subprocess.PIPE, start_new_session=True)
    seen = {}
    t0 = time.time()
    while p.poll() is None and time.time() - t0 < timeout:
        for w in watch:
            if w in seen: continue
            try:
                sz = os.path.getsize(w)
                with open(w, "rb") as fh:
                    fh.seek(max(0, sz - 200)); tail = fh.read().decode(errors="replace")
                fid = path_id(w)
                seen[w] = dict(size=sz, complete=tail.endswith("END %s\n" % fid), t=round(time.time() - t0, 4))
            except (FileNotFoundError, OSError):
                pass
        time.sleep(interval)
    if p.poll() is None:
        try: os.killpg(p.pid, signal.SIGKILL)
        except ProcessLookupError: pass
    err = p.communicate()[1].decode(errors="replace")
    try: os.killpg(p.pid, signal.SIGKILL)
    except (ProcessLookupError, PermissionError): pass
    final = {}
    for w in watch:
        try:
            sz = os.path.getsize(w)
            with open(w, "rb") as fh:
                fh.seek(max(0, sz - 200)); tail = fh.read().decode(errors="replace")
            final[w] = dict(size=sz, complete=tail.endswith("END %s\n" % path_id(w)))
        except (FileNotFoundError, OSError):
            pass
    return dict(rc=p.returncode, first_sight=seen, at_exit=final, stderr=err[-400:], cmdlog=read_cmdlog(os.path.join(d, "cmdlog")))

def validate_histories(inst, exp, hists, faults=None, weak=()):
    rows = []
    for h in hists:
        rows += h.rows
    res = run_tlc("TaskFSTrace", "fst.cfg", files={"fs.json": fs_json(inst, exp, faults), "trace.ndjson": ndjson(rows)},
                  cfgtext=fs_cfg(8, weak, trace=True), workers=1, timeout=300)
    if res.rejected:
        ln = res.rejected[0]
        st = max(k for k in range(ln) if rows[k]["e"] == "history")
        res.context = [json.dumps(r)[:200] for r in rows[st:ln]]
        if os.environ.get("VERIF_DEBUG"):
            print("---- rejected history prefix ----"); print("\n".join(res.context[-40:]))
    return res

# ----------------------------------------------------------------------------
def crash_points(inst, exp):
    """(label, VERIF_CRASH value) for every instrumented instant of every task"""
    pts = []
    ninst = norm_inst(inst)
    for t in exp["tasks"]:
        proc = t["proc"]
        p = [x for x in ninst["procs"] if x["name"] == proc][0]
        # reconstruct the hook's task string
        parts = [proc]
        for port, i in zip(p["ins"], t["ins"]):
            path = ("o/%s.txt" % i) if any(i in u["outs"] for u in exp["tasks"]) else ("in/%s.txt" % i)
            parts.append("%s=%s" % (port, path))
        for port, v in zip(p["params"], t["params"]):
            parts.append("p:%s=%s" % (port, v))
        tstr = '"task":"%s"' % "|".join(parts)
        for pt in ("exec.begin", "exec.acquired", "cmd.start", "cmd.end", "audit.done", "exec.ensure", "exec.fin",
                   "exec.released", "done.send.begin", "done.recv", "task.take", "task.spawn"):
            pts.append(("%s@%s" % (pt, t["key"]), "%s@%s#1" % (pt, tstr)))
        for o in t["outs"]:
            pts.append(("audit.write@%s" % o, 'audit.write@"path":"o/%s.txt.audit.json"#1' % o))
            pts.append(("fin.rename.begin@%s" % o, 'fin.rename.begin@"to":"o/%s.txt"#1' % o))
            pts.append(("fin.rename.done@%s" % o, 'fin.rename.done@"to":"o/%s.txt"#1' % o))
            pts.append(("send.begin@%s" % o, 'send.begin@"path":"o/%s.txt"#1' % o))
        sig = t["key"].split(":", 1)[1]
        for x in extras_of(inst, proc, sig):
            pts.append(("fin.extra.begin@%s" % x, 'fin.extra.begin@"to":"%s"#1' % x))
            pts.append(("fin.extra.done@%s" % x, 'fin.extra.done@"to":"%s"#1' % x))
        for n in (1, 2):
            pts.append(("fin.rmtmp.begin@%s#%d" % (proc, n), "fin.rmtmp.begin@_scipipe_tmp.%s.#%d" % (proc, n)))
            pts.append(("fin.rmtmp.done@%s#%d" % (proc, n), "fin.rmtmp.done@_scipipe_tmp.%s.#%d" % (proc, n)))
    seen, out = set(), []
    for l, v in pts:
        if v not in seen:
            seen.add(v); out.append((l, v))
    return out

def file_monitors(hist, exp, own_pre=None):
    """property-level checks on the snapshots of a history -> list of (property, message)"""
    out = []
    inst = hist.inst
    pre = set(norm_inst(inst)["pre"])
    exp_by_out = {}
    for t in exp["tasks"]:
        for o in t["outs"]:
            exp_by_out[o] = t
    for i, (rr, pr) in enumerate(zip(hist.runs, hist.snaps)):
        # C01: whatever is at a final path is complete
        for fid, k in pr["kind"].items():
            if k == "partial":
                out.append(("C01", "run %d of history %s left an incomplete file at final path o/%s.txt" % (i + 1, hist.label, fid)))
        # C10: every output finalized by a task is accompanied by its audit file (also right after a kill)
        for fid in pr["final"]:
            if fid in exp_by_out and fid not in pre and fid not in pr["audits"]:
                out.append(("C10", "after run %d of history '%s' the finalized output o/%s.txt has no audit file" % (i + 1, hist.label, fid)))
    return out
