"""Known findings: genuine defects of scipipe recorded instead of repaired.
known_findings.json is the committed list; the matchers below recognise the *specific*
signature of each listed finding, so that any other violation is still reported."""
import json, os
from vlib import VERIF, norm_inst

def load():
    try:
        return json.load(open(os.path.join(VERIF, "known_findings.json")))["findings"]
    except FileNotFoundError:
        return []

def active(fid):
    return any(f["id"] == fid and f["status"] == "known" for f in load())

def sig_F12(inst):
    """a process with several in/param ports receives streams of unequal length, the surplus
    is larger than bufsize + 1 and the upstream out-port has another consumer"""
    i = norm_inst(inst)
    cons = {}
    for e in i["edges"] + i["pedges"]:
        cons.setdefault(e["from"], []).append(e["to"])
    return any(len(v) > 1 for v in cons.values()) and any(len(p["ins"]) + len(p["params"]) > 1 for p in i["procs"])

def match(prop, msg, inst, rr):
    if prop == "C05" and "did not return" in msg and active("F12") and sig_F12(inst):
        return "F12"
    return None

def sig_F15(inst):
    """the unconnected port belongs to the process without out-ports that becomes the driver"""
    i = norm_inst(inst)
    port = inst.get("_unwired", "")
    proc = port.rsplit(".", 1)[0]
    return any(p["name"] == proc and p["kind"] in ("cmd", "gofunc") and not p["outs"] for p in i["procs"])
