"""Shared machinery of the scipipe verification framework (stdlib only).

 - builds the Go harness from /repo's working tree with -tags verif
 - runs TLC in private scratch directories and parses its output
 - runs real workflows (wfdriver) in scratch directories in their own process group
 - normalises recorded hook traces (purely syntactic) for the TLA+ trace acceptors
 - writes evidence files and handles the known-findings list
"""
import json, os, re, shutil, signal, subprocess, sys, tempfile, time, hashlib, random, glob

VERIF = os.path.dirname(os.path.dirname(os.path.abspath(__file__)))
REPO = os.environ.get("VERIF_REPO", "/repo")
SPEC = os.path.join(VERIF, "spec")
BUILD = os.environ.get("VERIF_BUILD", os.path.join(VERIF, "build"))
HARNESS = os.path.join(VERIF, "harness")
TLA_CP = "/opt/veriftools/tla/tla2tools.jar:/opt/veriftools/tla/CommunityModules-deps.jar"
GOENV = dict(GOFLAGS="-mod=mod", GOPROXY="off", GOSUMDB="off", GOTOOLCHAIN="local")
NCPU = os.cpu_count() or 4

def seed():
    try:
        return int(os.environ.get("VERIF_SEED", "1"))
    except ValueError:
        return 1

def scratch(prefix="vf"):
    base = os.environ.get("VERIF_SCRATCH", "/tmp")
    return tempfile.mkdtemp(prefix=prefix + ".", dir=base)

def rmtree(p):
    shutil.rmtree(p, ignore_errors=True)

class Undecided(Exception):
    """The run decided nothing (tool failure, timeout, drift) -> exit 2."""

# ----------------------------------------------------------------------------
# building
# ----------------------------------------------------------------------------
_built = {}
import threading
_build_lock = threading.Lock()
def build(name, pkg=None, tags="verif"):
    """go build ./cmd/<name> of the harness module against /repo's working tree."""
    with _build_lock:
        return _build(name, pkg, tags)
def _build(name, pkg=None, tags="verif"):
    if name in _built:
        return _built[name]
    os.makedirs(BUILD, exist_ok=True)
    out = os.path.join(BUILD, name)
    env = dict(os.environ, **GOENV)
    cmd = ["go", "build", "-tags", tags, "-o", out]
    if REPO != "/repo":     # mutation testing in a scratch worktree: alternate go.mod with another replace target
        alt = os.path.join(BUILD, "go.alt.mod")
        with open(alt + ".tmp", "w") as fh:
            fh.write(open(os.path.join(HARNESS, "go.mod")).read().replace("=> /repo", "=> " + REPO))
        os.replace(alt + ".tmp", alt)
        cmd += ["-modfile", alt]
    cmd += [pkg or ("./cmd/" + name)]
    r = subprocess.run(cmd, cwd=HARNESS, env=env, capture_output=True, text=True)
    if r.returncode != 0:
        raise Undecided("go build %s failed:\n%s" % (name, r.stderr[-3000:]))
    _built[name] = out
    return out

def build_repo_bin(name, pkg, tags="verif"):
    """go build a main package of /repo itself (e.g. cmd/scipipe)."""
    with _build_lock:
        return _build_repo_bin(name, pkg, tags)
def _build_repo_bin(name, pkg, tags="verif"):
    if name in _built:
        return _built[name]
    os.makedirs(BUILD, exist_ok=True)
    out = os.path.join(BUILD, name)
    env = dict(os.environ, **GOENV)
    r = subprocess.run(["go", "build", "-tags", tags, "-o", out, pkg], cwd=REPO, env=env,
                       capture_output=True, text=True)
    if r.returncode != 0:
        raise Undecided("go build %s failed:\n%s" % (pkg, r.stderr[-3000:]))
    _built[name] = out
    return out

# ----------------------------------------------------------------------------
# TLC
# ----------------------------------------------------------------------------
class TLCResult:
    def __init__(self):
        self.ok = False; self.out = ""; self.generated = 0; self.distinct = 0
        self.violated = None; self.deadlock = False; self.rejected = None
        self.error = None; self.wall = 0.0; self.trace = []; self.prints = []

def run_tlc(module, cfg, files=None, workers=4, timeout=600, extra=None, heap="3g",
            simulate=None, depth_first=False, keep=False, cfgtext=None):
    """Run TLC on spec/<module>.tla with spec/<cfg> in a private scratch copy.
    files: {name: text} written next to the spec (inst.json, trace.ndjson ...)."""
    d = scratch("tlc")
    res = TLCResult()
    try:
        for f in glob.glob(os.path.join(SPEC, "*.tla")):
            shutil.copy(f, d)
        if cfgtext is not None:
            open(os.path.join(d, cfg), "w").write(cfgtext)
        else:
            shutil.copy(os.path.join(SPEC, cfg), d)
        for k, v in (files or {}).items():
            with open(os.path.join(d, k), "w") as fh:
                fh.write(v)
        cmd = ["java", "-XX:+UseParallelGC", "-XX:ParallelGCThreads=2", "-Xmx" + heap, "-Xss64m",
               "-Djava.io.tmpdir=" + d]       # SANY unpacks the standard modules into the temp dir on every run: keep that inside the scratch copy
        if depth_first:
            cmd.append("-Dtlc2.tool.queue.IStateQueue=StateDeque")
        cmd += ["-cp", TLA_CP, "tlc2.TLC", "-workers", str(workers), "-metadir", os.path.join(d, "md"),
                "-config", cfg]
        if simulate:
            cmd += ["-simulate", simulate]
        cmd += list(extra or []) + [module + ".tla"]
        t0 = time.time()
        try:
            r = subprocess.run(cmd, cwd=d, capture_output=True, text=True, timeout=timeout)
            res.out = r.stdout + r.stderr
            rc = r.returncode
        except subprocess.TimeoutExpired as e:
            res.out = (e.stdout or b"").decode() if isinstance(e.stdout, bytes) else (e.stdout or "")
            res.error = "timeout"
            rc = -1
        res.wall = time.time() - t0
        out = res.out
        m = re.findall(r"(\d[\d,]*) states generated, (\d[\d,]*) distinct states found", out)
        if m:
            res.generated = int(m[-1][0].replace(",", "")); res.distinct = int(m[-1][1].replace(",", ""))
        m = re.search(r"Invariant (\S+) is violated", out)
        if m: res.violated = m.group(1)
        m = re.search(r"Temporal properties were violated", out)
        if m: res.violated = res.violated or "TEMPORAL"
        if "Deadlock reached" in out: res.deadlock = True
        m = re.search(r'"REJECTED at line",\s*(\d+),\s*(.*?)>>\s*$', out, re.S | re.M)
        if m: res.rejected = (int(m.group(1)), re.sub(r"\s+", " ", m.group(2))[:400])
        res.prints = re.findall(r'^"?(SCEN .*)$', out, re.M)
        if res.error is None:
            if "Model checking completed. No error has been found." in out or (simulate and rc == 0):
                res.ok = True
            elif res.violated or res.deadlock or res.rejected:
                res.ok = False
            else:
                res.error = "tlc failed (rc=%s): %s" % (rc, out[-1500:])
        if res.violated or res.deadlock:
            res.trace = parse_tlc_trace(out)
        return res
    finally:
        if keep:
            res.dir = d
        else:
            rmtree(d)

def run_apalache(module, args, timeout=600, edit=None):
    """apalache-mc check <args> spec/<module>.tla in a scratch copy; returns (ok, outcome text). edit: (old, new) text replacement (weakened variant)."""
    d = scratch("apa")
    try:
        src = open(os.path.join(SPEC, module + ".tla")).read()
        if edit:
            assert edit[0] in src
            src = src.replace(edit[0], edit[1])
        open(os.path.join(d, module + ".tla"), "w").write(src)
        try:
            r = subprocess.run(["apalache-mc", "check"] + list(args) + [module + ".tla"], cwd=d, capture_output=True, text=True, timeout=timeout)
        except subprocess.TimeoutExpired:
            return None, "timeout"
        out = r.stdout + r.stderr
        if "The outcome is: NoError" in out: return True, "NoError"
        if "The outcome is: Error" in out: return False, "Error"
        return None, out[-600:]
    finally:
        rmtree(d)

def parse_tlc_trace(out):
    """Return the list of action names of a TLC error trace."""
    return re.findall(r"^State \d+: <(\w+)", out, re.M)

# ----------------------------------------------------------------------------
# instances (wfspec)
# ----------------------------------------------------------------------------
def norm_inst(inst):
    """Fill in every field so that TLC never meets a missing record field."""
    i = dict(inst)
    i.setdefault("max", 2); i.setdefault("bufsize", 1)
    i.setdefault("mode", "run"); i.setdefault("targets", []); i.setdefault("patterns", [])
    i.setdefault("pre", []); i.setdefault("faults", {})
    procs = []
    for p in i["procs"]:
        q = dict(p)
        for k in ("items", "values", "ins", "params", "outs", "streams"):
            q.setdefault(k, [])
        q["joinports"] = sorted((q.get("joins") or {}).keys())
        q.setdefault("cores", 1)
        if q["kind"] == "concat": q["item"] = path_id(q.get("arg", ""))      # the one file the component emits
        if q["kind"] == "splitter":      # lines // n full parts and the trailing (possibly empty) one; the line count of what arrives is known behind
            n = int(q.get("arg") or 1)   # a file source (one line) and behind a task of the harness whose inputs all come from sources (BEGIN, one line per
            up = [e["from"].rsplit(".", 1)[0] for e in i.get("edges", []) if e["to"] == q["name"] + ".file"]      # input, one per parameter, END)
            byname = {x["name"]: x for x in i["procs"]}
            def nlines(u):
                u = byname[u]
                if u["kind"] == "src": return 1
                assert u["kind"] == "cmd" and not u.get("arg"), "splitter behind %s: line count unknown" % u["name"]
                ins = [e["from"].rsplit(".", 1)[0] for e in i.get("edges", []) if e["to"].rsplit(".", 1)[0] == u["name"]]
                return 2 + sum(nlines(x) for x in ins) + len(u.get("params") or [])
            counts = {nlines(u) for u in up} or {1}
            assert len(counts) == 1, "splitter fed by files of different line counts"
            q["nparts"] = counts.pop() // n + 1
        q["ins"] = sorted(q["ins"]); q["params"] = sorted(q["params"])
        procs.append(q)
    i["procs"] = procs
    def edge(e):
        e = dict(e)
        e["fp"] = e["from"].rstrip(">").rsplit(".", 1)[0]; e["tp"] = e["to"].rsplit(".", 1)[0]
        return e
    i["edges"] = [edge(e) for e in i.get("edges", [])]
    i["pedges"] = [edge(e) for e in i.get("pedges", [])]
    feeds = []
    for f in i.get("feeds", []):
        f = dict(f); f["tp"] = f["to"].rsplit(".", 1)[0]; feeds.append(f)
    i["feeds"] = feeds
    return i

# failure kinds the specifications do not distinguish: a dangling symbolic link at an output path is "declared output not produced"
MODEL_FAULT = {"dangling_link": "skip_output", "panic_after_partial": "exit_after_partial"}
def model_faults(faults):
    return {k: MODEL_FAULT.get(v, v) for k, v in (faults or {}).items()}
def inst_json(inst):
    i = norm_inst(inst); i["faults"] = model_faults(i["faults"])
    return json.dumps(i)

def sig_of(ins, params):
    s = "-".join(ins)
    if params:
        s += "_" + "-".join(params)
    return s

def path_id(path):
    b = os.path.basename(path)
    for suf in (".txt", ".fifo"):
        if b.endswith(suf):
            b = b[: -len(suf)]
    return b

# ----------------------------------------------------------------------------
# real runs
# ----------------------------------------------------------------------------
class RealRun:
    pass

def prepare_dir(inst, d, pre_content=None, ctl=None):
    os.makedirs(os.path.join(d, "in"), exist_ok=True)
    os.makedirs(os.path.join(d, "ctl"), exist_ok=True)
    for p in inst["procs"]:
        if p["kind"] == "src":
            for it in p.get("items", []):
                with open(os.path.join(d, "in", it + ".txt"), "w") as fh:
                    fh.write("SRC %s\n" % it)
    for fid in inst.get("pre", []):
        os.makedirs(os.path.join(d, "o"), exist_ok=True)
        with open(os.path.join(d, "o", fid + ".txt"), "w") as fh:
            fh.write((pre_content or {}).get(fid, "USER %s\n" % fid))
    for key, kind in inst.get("faults", {}).items():
        with open(os.path.join(d, "ctl", key + ".fault"), "w") as fh:
            fh.write(kind)
    for name, val in dict(inst.get("ctl", {}), **(ctl or {})).items():
        with open(os.path.join(d, "ctl", name), "w") as fh:
            fh.write(str(val))
    for sub in inst.get("mkdirs", []):      # pre-existing directories (obstacles, destinations)
        os.makedirs(os.path.join(d, sub), exist_ok=True)
    with open(os.path.join(d, "wf.json"), "w") as fh:
        json.dump(norm_inst(inst), fh)

def run_real(inst, d, env=None, timeout=60, bufsize=None, driver=None):
    """Run wfdriver on the prepared directory d (own session / process group)."""
    drv = driver or build("wfdriver")
    e = dict(os.environ)
    e.update(VERIF_TRACE=os.path.join(d, "trace.ndjson"), VERIF_CMDLOG=os.path.join(d, "cmdlog"),
             VERIF_CTL=os.path.join(d, "ctl"), VERIF_HELPER=os.path.join(HARNESS, "cmdhelper.sh"),
             SCIPIPE_BUFSIZE=str(bufsize if bufsize is not None else inst.get("bufsize", 1)))
    e.update(env or {})
    rr = RealRun()
    rr.workdir = d
    t0 = time.time()
    p = subprocess.Popen([drv, "wf.json"], cwd=d, env=e, stdout=subprocess.PIPE, stderr=subprocess.PIPE,
                         start_new_session=True)
    try:
        if e.get("VERIF_SLOW_STDOUT"):      # do not drain the driver's stdout for a while (blocks its log writes)
            time.sleep(float(e["VERIF_SLOW_STDOUT"]))
        out, err = p.communicate(timeout=timeout)
        rr.timeout = False
    except subprocess.TimeoutExpired:
        rr.timeout = True
        try: os.killpg(p.pid, signal.SIGKILL)
        except ProcessLookupError: pass
        out, err = p.communicate()
    # make sure nothing of the group survives (orphaned commands)
    try: os.killpg(p.pid, signal.SIGKILL)
    except (ProcessLookupError, PermissionError): pass
    rr.wall = time.time() - t0
    rr.rc = p.returncode
    rr.stdout = out.decode(errors="replace"); rr.stderr = err.decode(errors="replace")
    rr.completed = "WFDRIVER_COMPLETED" in rr.stdout
    rr.deadlock = "all goroutines are asleep - deadlock!" in rr.stderr
    rr.panic = "panic:" in rr.stderr and not rr.deadlock
    rr.events = read_events(os.path.join(d, "trace.ndjson"))
    rr.cmdlog = read_cmdlog(os.path.join(d, "cmdlog"))
    rr.snapshot = snapshot(d)
    rr.dir = d
    try:
        rr.return_snapshot = json.load(open(os.path.join(d, "return_snapshot.json")))
    except Exception:
        rr.return_snapshot = None
    return rr

def read_events(path):
    evs = []
    try:
        for line in open(path):
            line = line.strip()
            if not line: continue
            try: evs.append(json.loads(line))
            except ValueError: pass   # torn last line after SIGKILL
    except FileNotFoundError:
        pass
    evs.sort(key=lambda e: e.get("seq", 0))
    return evs

def read_cmdlog(path):
    rows = []
    try:
        for line in open(path):
            parts = line.rstrip("\n").split(" ", 3)
            if len(parts) == 4:
                if parts[0] == "C":
                    import base64
                    k, _, b = parts[3].rpartition(" ")
                    try:
                        rows.append(dict(tag="C", ts=0.0, pid=parts[2], key=k, cmdline=base64.b64decode(b).decode(errors="replace")))
                    except Exception:
                        pass        # line cut short by a kill of the process group
                    continue
                try:
                    rows.append(dict(tag=parts[0], ts=float(parts[1] or 0), pid=parts[2], key=parts[3]))
                except ValueError:
                    pass
    except FileNotFoundError:
        pass
    return rows

SKIP_TOP = {"wf.json", "trace.ndjson", "cmdlog", "wf.log", "wf2.log", "return_snapshot.json", "ctl", "in", "log"}
def snapshot(d):
    """files below d (except harness files): path -> dict(kind, size, sha, ino, mtime_ns, text)"""
    snap = {}
    for root, dirs, files in os.walk(d):
        rel = os.path.relpath(root, d)
        if rel == ".":
            dirs[:] = [x for x in dirs if x not in ("ctl", "in", "log")]
        for x in dirs:
            p = os.path.normpath(os.path.join(rel, x))
            snap[p] = dict(kind="dir")
        for f in files:
            p = os.path.normpath(os.path.join(rel, f))
            if rel == "." and f in SKIP_TOP: continue
            full = os.path.join(root, f)
            try:
                st = os.lstat(full)
            except FileNotFoundError:
                continue
            import stat as _s
            if _s.S_ISFIFO(st.st_mode):
                snap[p] = dict(kind="fifo"); continue
            try:
                data = open(full, "rb").read()
            except Exception:
                data = b""
            snap[p] = dict(kind="file", size=st.st_size, sha=hashlib.sha256(data).hexdigest(),
                           ino=st.st_ino, mtime_ns=st.st_mtime_ns,
                           text=data.decode(errors="replace") if len(data) < 4000000 else None)
    return snap

def final_ids(snap, outdir="o"):
    return sorted(path_id(p) for p, v in snap.items()
                  if v["kind"] == "file" and os.path.dirname(p) == outdir and p.endswith(".txt"))

def tmpdirs(snap):
    return sorted(p for p, v in snap.items() if v["kind"] == "dir" and os.path.basename(p).startswith("_scipipe_tmp"))

def exec_counts(cmdlog):
    c = {}
    for r in cmdlog:
        if r["tag"] == "S":
            c[r["key"]] = c.get(r["key"], 0) + 1
    return c

# ----------------------------------------------------------------------------
# trace normalisation for FlowTrace.tla (syntactic only: rename, split, filter)
# ----------------------------------------------------------------------------
def task_key(taskstr):
    """'a|in=in/1.txt|x=o/b.txt|p:p=u' -> ('a', 'a:1-b_u')"""
    parts = taskstr.split("|")
    proc = parts[0]
    ins, params = [], []
    for p in parts[1:]:
        if p.startswith("p:"):
            params.append(p.split("=", 1)[1])
        else:
            v = p.split("=", 1)[1]
            if v.startswith("["):
                continue    # joined port: members do not enter the sig
            ins.append(path_id(v))
    return proc, proc + ":" + sig_of(ins, params)

def normalize_flow(events, inst, end):
    """events of one real run -> list of FlowTrace events (dicts)."""
    inst = norm_inst(inst)
    sinkproc = inst["name"] + "_default_sink"
    emit_outs = set()
    for p in inst["procs"]:
        if p["kind"] in ("src", "psrc"):
            emit_outs.add(p["name"] + ".out")
        if p["kind"] == "substream":
            emit_outs.add(p["name"] + ".substream")
    for f in inst["feeds"]:
        emit_outs.add(f["to"] + "<feed")
    out = [dict(e="header")]
    carriers = {}       # path of a carrier IP (random temp name) -> "carrier:<substream process>"
    def item_of(ev):
        if "path" not in ev: return ev["val"]
        return carriers.get(ev["path"], path_id(ev["path"]))
    g2task = {}
    finished = set()
    relays = {p["name"]: p["params"][0] for p in inst["procs"] if p["kind"] == "pcomb" and len(p["params"]) == 1}
    combs = {p["name"] for p in inst["procs"] if (p["kind"] == "pcomb" and len(p["params"]) >= 2) or p["kind"] == "fcomb"}
    passes = {p["name"] for p in inst["procs"] if p["kind"] in ("maptotags", "splitter")}
    splitters = {p["name"] for p in inst["procs"] if p["kind"] == "splitter"}
    def pass_in(m): return m + (".file" if m in splitters else ".in")
    def pass_out(m): return m + (".split_file" if m in splitters else ".out")
    def pass_base(m, item): return item.split(".txt.split_")[0] if m in splitters else item      # the received item behind a forwarded one
    cats = {p["name"] for p in inst["procs"] if p["kind"] == "concat"}       # collect-then-emit-one-file components: relays without hooks
    for m in passes:
        emit_outs.add(pass_out(m))
    pass_seen = {m: set() for m in passes}
    for r, port in relays.items():
        emit_outs.add("%s.%s>" % (r, port))
    relay_in = {"%s.%s" % (r, port): r for r, port in relays.items()}
    relay_got = {r: [] for r in relays}       # items sent to the relay's in-port, in send order
    for c in cats:
        emit_outs.add(c + ".out"); relay_in[c + ".in"] = c; relay_got[c] = []
    def relay_inport(r): return "%s.%s" % (r, "in" if r in cats else relays[r])
    relay_started = set()
    def feedname(frm, to):
        if frm.endswith(".string_feeder"):
            return to + "<feed"
        if frm.rsplit(".", 1)[0] in relays and not (to in relay_in and relay_in[to] == frm.rsplit(".", 1)[0]):
            return frm + ">"
        if frm.rsplit(".", 1)[0] in combs:      # in- and out-port of a combinator have the same name: the out-port is written "proc.port>"
            return frm + ">"
        return frm
    for ev in events:
        e = ev["ev"]
        if e == "wire.done":
            drv = ev["driver"]
            out.append(dict(e="wire", procs=[x for x in ev["procs"].split(",") if x],
                            driver="SINK" if drv == sinkproc else drv,
                            sink=[(y + ">") if y.rsplit(".", 1)[0] in combs or y.rsplit(".", 1)[0] in relays else y
                                  for y in [x[2:] if x.startswith("p:") else x for x in ev["sink"].split(",") if x]],
                            max=ev["max"]))
        elif e == "run.start":
            out.append(dict(e="run.start"))
        elif e in ("send.begin", "send.done", "sendp.begin", "sendp.done"):
            if "path" in ev and ev["from"].endswith(".substream"):
                carriers[ev["path"]] = "carrier:" + ev["from"].rsplit(".", 1)[0]
            item = item_of(ev)
            frm = feedname(ev["from"], ev["to"])
            if e.endswith(".begin") and ev["to"] in relay_in:
                relay_got[relay_in[ev["to"]]].append(item)
            pproc = frm.rsplit(".", 1)[0]
            if pproc in passes and e.endswith(".begin") and pass_base(pproc, item) not in pass_seen[pproc]:
                # pass-through component without hooks: it received the item it now forwards (a splitter: the item whose first part it forwards)
                pass_seen[pproc].add(pass_base(pproc, item))
                out.append(dict(e="relay.recv", proc=pproc, port=pass_in(pproc), closed=False, item=pass_base(pproc, item)))
            rproc = frm[:-1].rsplit(".", 1)[0] if frm.endswith(">") else (frm.rsplit(".", 1)[0] if frm.rsplit(".", 1)[0] in cats else None)
            if rproc in relay_got and rproc not in relay_started:
                # the component has no hooks: its receives are reconstructed (single upstream, channel order = send order)
                relay_started.add(rproc)
                port = relay_inport(rproc)
                for it in relay_got[rproc]:
                    out.append(dict(e="relay.recv", proc=rproc, port=port, closed=False, item=it))
                out.append(dict(e="relay.recv", proc=rproc, port=port, closed=True, item=""))
            out.append(dict(e="send." + e.split(".")[1], to=ev["to"], item=item, **{"from": frm}))
        elif e in ("conn.close", "connp.close"):
            frm = feedname(ev["from"], ev["port"])
            rproc = frm[:-1].rsplit(".", 1)[0] if frm.endswith(">") else (frm.rsplit(".", 1)[0] if frm.rsplit(".", 1)[0] in cats else None)
            if rproc in relay_got and rproc not in relay_started:      # relay that emitted nothing
                relay_started.add(rproc)
                port = relay_inport(rproc)
                for it in relay_got[rproc]:
                    out.append(dict(e="relay.recv", proc=rproc, port=port, closed=False, item=it))
                out.append(dict(e="relay.recv", proc=rproc, port=port, closed=True, item=""))
            if frm in emit_outs and frm not in finished and frm.rsplit(".", 1)[0] in passes:
                out.append(dict(e="relay.recv", proc=frm.rsplit(".", 1)[0], port=pass_in(frm.rsplit(".", 1)[0]), closed=True, item=""))
            if frm in emit_outs and frm not in finished:
                finished.add(frm)
                out.append(dict(e="em.finish", **{"from": frm}))
            out.append(dict(e="conn.close", port=ev["port"], left=ev["left"], **{"from": frm}))
        elif e == "proc.start":
            out.append(dict(e="proc.start", proc=ev["proc"], cores=ev["cores"]))
        elif e in ("ct.recv", "ct.recvp"):
            closed = bool(ev.get("closed", False))
            item = "" if closed else item_of(ev)
            out.append(dict(e="ct.recv", proc=ev["proc"], port=ev["proc"] + "." + ev["port"], closed=closed, item=item))
        elif e == "ct.sub":
            out.append(dict(e="ct.sub", proc=ev["proc"], port=ev["proc"] + "." + ev["port"], item=path_id(ev["path"])))
        elif e == "task.new":
            proc, key = task_key(ev["task"])
            outs = {}
            for o in [x for x in ev["outs"].split(";") if x]:
                k, v = o.split("=", 1)
                outs[k] = path_id(v.rstrip("*"))
            out.append(dict(e="task.new", proc=proc, key=key, outs=outs))
        elif e in ("task.take", "done.recv"):
            proc, key = task_key(ev["task"])
            out.append(dict(e=e, proc=proc, key=key))
        elif e in ("exec.begin", "exec.skip", "exec.acquired", "cmd.start", "cmd.end"):
            proc, key = task_key(ev["task"])
            if e == "exec.begin":
                g2task[ev["g"]] = (proc, key)
            out.append(dict(e=e, proc=proc, key=key))
        elif e == "exec.fin":
            proc, key = task_key(ev["task"])
            out.append(dict(e="publish", proc=proc, key=key))
            out.append(dict(e="release", proc=proc, key=key))
        elif e in ("ct.end", "tasks.closed", "proc.exit"):
            out.append(dict(e=e, proc=ev["proc"]))
        elif e == "sink.recv":
            out.append(dict(e="sink.recv", port=sinkproc + ".sink_in", item=item_of(ev)))
        elif e == "sink.recvp":
            out.append(dict(e="sink.recv", port=sinkproc + ".param_sink_in", item=ev["val"]))
        elif e == "fail":
            proc, key = g2task.get(ev["g"], ("", ""))
            m = re.search(r"\[Process:([^\]]+)\]", ev.get("msg", ""))
            if m and not proc: proc = m.group(1)
            out.append(dict(e="fail", proc=proc, key=key, msg=ev.get("msg", "")[:200]))
        elif e == "run.return":
            out.append(dict(e="run.return"))
        elif e in ("fifo.create", "fifo.remove"):
            pth = ev["path"][:-5] if ev["path"].endswith(".fifo") else ev["path"]
            out.append(dict(e=e, proc=ev["proc"], item=path_id(pth)))
        # everything else (slots.*, audit.*, fin.*, ...) belongs to other acceptors
    # processes with an explicit command (no helper, hence no line of their own in the command log): their executions are
    # counted from the cmd.start hook
    argprocs = {p["name"] for p in inst["procs"] if p.get("arg")}
    if argprocs:
        end = dict(end); ex = dict(end.get("execs") or {})
        for ev in events:
            if ev["ev"] == "cmd.start":
                proc, key = task_key(ev["task"])
                if proc in argprocs: ex[key] = ex.get(key, 0) + 1
        end["execs"] = ex
    out.append(dict(e="end", **end))
    return out

def end_record(rr):
    return dict(completed=rr.completed, exit=(rr.rc if rr.rc is not None else -1),
                files=final_ids(rr.snapshot), execs=exec_counts(rr.cmdlog))

def ndjson(rows):
    return "".join(json.dumps(r) + "\n" for r in rows)

# ----------------------------------------------------------------------------
# evidence / findings / verdict plumbing
# ----------------------------------------------------------------------------
def known_findings():
    try:
        return json.load(open(os.path.join(VERIF, "known_findings.json")))["findings"]
    except FileNotFoundError:
        return []

class Check:
    """Collects results of one property check and writes the evidence file."""
    def __init__(self, pid, tier, level="model_checking"):
        self.pid = pid; self.tier = tier; self.level = level
        self.t0 = time.time(); self.states = 0; self.transitions = 0; self.traces = 0
        self.evaluations = 0; self.nontrivial = set(); self.samples = []; self.violations = []
        self.known = []; self.notes = []; self.assumptions = []; self.rule = ""; self.extra = {}
        self.undecided = []
    def add_tlc(self, res):
        self.states += res.distinct; self.transitions += res.generated
    def sample(self, s, limit=6):
        if len(self.samples) < limit: self.samples.append(s)
    def violation(self, what, replay):
        if len(self.violations) >= 100:      # enough replay files; the rest is only counted
            self.violations.append((what, self.violations[-1][1]))
            if len(self.violations) == 101:
                print("  (further violations of this run are counted, not listed)", flush=True)
            return
        path = save_replay(self.pid, replay)
        self.violations.append((what, path))
        print("VIOLATION property=%s replay=%s" % (self.pid, path), flush=True)
        print("  detail: %s" % what, flush=True)
    def known_finding(self, fid, what):
        if fid not in [k[0] for k in self.known]:
            self.known.append((fid, what))
            print("KNOWN-FINDING: property=%s %s %s" % (self.pid, fid, what), flush=True)
    def finish(self):
        cov = dict(states=max(self.states, 0), transitions=max(self.transitions, 0),
                   traces_validated_against_impl=self.traces, evaluations=self.evaluations,
                   distinct_nontrivial=len(self.nontrivial), rule=self.rule,
                   samples=self.samples or ["(none)"], known_findings_reobserved=[k[0] for k in self.known])
        cov.update(self.extra)
        ev = dict(property_id=self.pid, tier=self.tier, seed=seed(), level=self.level, coverage=cov,
                  assumptions=self.assumptions, wall_s=round(time.time() - self.t0, 2),
                  violations=len(self.violations))
        if not os.environ.get("VERIF_NO_EVIDENCE"):     # set only by the mutation-testing helper
            os.makedirs(os.path.join(VERIF, "evidence"), exist_ok=True)
            with open(os.path.join(VERIF, "evidence", self.pid + ".json"), "w") as fh:
                json.dump(ev, fh, indent=1, default=str)
        if self.violations:
            return 1
        if self.undecided:
            for u in self.undecided:
                print("UNDECIDED: %s" % u, flush=True)
            return 2
        return 0

def save_replay(pid, replay):
    d = os.path.join(VERIF, "replays")
    os.makedirs(d, exist_ok=True)
    name = "%s_%s_%d.json" % (pid, time.strftime("%H%M%S"), random.randrange(10**6))
    path = os.path.join(d, name)
    with open(path, "w") as fh:
        json.dump(replay, fh, indent=1, default=str)
    return path

def pmap(fn, items, workers=None):
    """Run fn over items in a thread pool (work is in subprocesses)."""
    from concurrent.futures import ThreadPoolExecutor
    with ThreadPoolExecutor(max_workers=workers or NCPU) as ex:
        return list(ex.map(fn, items))
