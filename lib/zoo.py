"""Workflow instances (wfspec) used by the flow family of checks, and a seeded generator."""
import random

def src(name, items): return dict(name=name, kind="src", items=list(items))
def psrc(name, values): return dict(name=name, kind="psrc", values=list(values))
def cmd(name, ins=(), outs=("out",), params=(), cores=1, kind="cmd"):
    return dict(name=name, kind=kind, ins=list(ins), outs=list(outs), params=list(params), cores=cores)
def E(f, t): return {"from": f, "to": t}

def items(n, prefix=""):
    return [prefix + str(i) for i in range(1, n + 1)]

def Z1(n=2, buf=1, mx=2):
    return dict(name="Z1", max=mx, bufsize=buf,
                procs=[src("s", items(n)), cmd("a", ["in"], ["out"], ["p"]), cmd("b", ["x"], ["o1", "o2"])],
                edges=[E("s.out", "a.in"), E("a.out", "b.x")],
                feeds=[dict(to="a.p", values=["u", "v", "w", "y", "z"][:n])])

def Z2(n=2, buf=1, mx=2):      # fan-out of a process out-port
    return dict(name="Z2", max=mx, bufsize=buf,
                procs=[src("s", items(n)), cmd("a", ["in"]), cmd("b", ["x"]), cmd("c", ["x"])],
                edges=[E("s.out", "a.in"), E("a.out", "b.x"), E("a.out", "c.x")])

def Z3(n=2, buf=1, mx=2):      # diamond with a two-port join
    return dict(name="Z3", max=mx, bufsize=buf,
                procs=[src("s", items(n)), cmd("a", ["in"]), cmd("b", ["in"]), cmd("j", ["l", "r"])],
                edges=[E("s.out", "a.in"), E("s.out", "b.in"), E("a.out", "j.l"), E("b.out", "j.r")])

def Z4(n=2, buf=1, mx=2):      # fan-in of two upstreams into one port
    return dict(name="Z4", max=mx, bufsize=buf,
                procs=[src("s1", items(n, "a")), src("s2", items(n, "b")), cmd("m", ["in"]), cmd("n", ["x"])],
                edges=[E("s1.out", "m.in"), E("s2.out", "m.in"), E("m.out", "n.x")])

def Z5(n=3, m=1, buf=1, mx=2):  # two ports, unequal stream lengths
    return dict(name="Z5", max=mx, bufsize=buf,
                procs=[src("s1", items(n, "a")), src("s2", items(m, "b")), cmd("j", ["x", "y"])],
                edges=[E("s1.out", "j.x"), E("s2.out", "j.y")])

def Z5b(n=4, m=1, buf=1, mx=2):  # F12: the longer stream is also fanned out to a sibling consumer
    return dict(name="Z5b", max=mx, bufsize=buf,
                procs=[src("s", items(n)), src("t", items(m, "b")), cmd("a", ["x", "y"]), cmd("b", ["in"])],
                edges=[E("s.out", "a.x"), E("t.out", "a.y"), E("s.out", "b.in")])

def Z6(n=2, buf=1, mx=2):      # param port from a param source and from FromStr
    return dict(name="Z6", max=mx, bufsize=buf,
                procs=[src("s", items(n)), psrc("ps", ["x", "y", "z"][:n]), cmd("a", ["in"], ["out"], ["p", "q"])],
                edges=[E("s.out", "a.in")], pedges=[E("ps.out", "a.p")],
                feeds=[dict(to="a.q", values=["k", "l", "m"][:n])])

def Z7(n=2, buf=1, mx=2):      # two-output task feeding two consumers
    return dict(name="Z7", max=mx, bufsize=buf,
                procs=[src("s", items(n)), cmd("a", ["in"], ["o1", "o2"]), cmd("b", ["x"]), cmd("c", ["x"])],
                edges=[E("s.out", "a.in"), E("a.o1", "b.x"), E("a.o2", "c.x")])

def Z8(n=2, buf=1, mx=2):      # port-less process beside an independent chain
    return dict(name="Z8", max=mx, bufsize=buf,
                procs=[src("s", items(n)), cmd("a", ["in"]), cmd("p", [], ["out"])],
                edges=[E("s.out", "a.in")])

def Z9(n=2, buf=1, mx=2):      # leaf without out-ports (driver) beside another branch
    return dict(name="Z9", max=mx, bufsize=buf,
                procs=[src("s", items(n)), cmd("leaf", ["in"], []), src("t", items(n, "b")), cmd("a", ["in"]), cmd("b", ["x"])],
                edges=[E("s.out", "leaf.in"), E("t.out", "a.in"), E("a.out", "b.x")])

def Z10(n=3, buf=1, mx=1):     # issue #81 shape: more tasks than buffer slots
    return dict(name="Z10", max=mx, bufsize=buf,
                procs=[src("s", items(n)), cmd("a", ["in"]), cmd("b", ["x"])],
                edges=[E("s.out", "a.in"), E("a.out", "b.x")])

def Z13(n=2, buf=1, mx=3):     # mixed cores
    return dict(name="Z13", max=mx, bufsize=buf,
                procs=[src("s", items(n)), cmd("a", ["in"], cores=2), cmd("b", ["in"], cores=1), cmd("c", ["in"], cores=3)],
                edges=[E("s.out", "a.in"), E("s.out", "b.in"), E("s.out", "c.in")])

def Z14(n=2, buf=1, mx=2):     # one out-port feeding two in-ports of the same process
    return dict(name="Z14", max=mx, bufsize=buf,
                procs=[src("s", items(n)), cmd("j", ["x", "y"])],
                edges=[E("s.out", "j.x"), E("s.out", "j.y")])

def Z15(n=2, buf=1, mx=2):     # single process without ports (driver of a one-process workflow)
    return dict(name="Z15", max=mx, bufsize=buf, procs=[cmd("solo", [], [])], edges=[])

def Z16(n=2, buf=1, mx=2):     # chain ending in a leaf without out-ports
    return dict(name="Z16", max=mx, bufsize=buf,
                procs=[src("s", items(n)), cmd("a", ["in"]), cmd("leaf", ["x"], [])],
                edges=[E("s.out", "a.in"), E("a.out", "leaf.x")])

def Z17(n=3, buf=1, mx=2):     # issue #81 architecture: a source feeds a process and, directly, the join behind it
    return dict(name="Z17", max=mx, bufsize=buf,
                procs=[src("s", items(n)), cmd("a", ["in"]), cmd("j", ["l", "r"])],
                edges=[E("s.out", "a.in"), E("a.out", "j.l"), E("s.out", "j.r")])

def Z18(n=3, buf=1, mx=2):     # one upstream feeds the leaf driver AND a branch that ends in the sink
    return dict(name="Z18", max=mx, bufsize=buf,
                procs=[src("s", items(n)), cmd("mk", ["in"]), cmd("chk", ["x"], []), cmd("cp", ["x"])],
                edges=[E("s.out", "mk.in"), E("mk.out", "chk.x"), E("mk.out", "cp.x")])

def Z19(n=2, buf=1, mx=2):     # a parameter out-port nobody consumes beside a file out-port nobody consumes (both end in the sink)
    return dict(name="Z19", max=mx, bufsize=buf,
                procs=[src("s", items(n)), cmd("a", ["in"]), cmd("b", ["x"]), psrc("ps", ["k1", "k2", "k3"])],
                edges=[E("s.out", "a.in"), E("a.out", "b.x")])

def Z5c(n=3, m=1, buf=1, mx=2):  # the longer stream of a two-port process is produced by TASKS of an upstream process
    return dict(name="Z5c", max=mx, bufsize=buf,
                procs=[src("s1", items(n, "a")), cmd("a", ["in"]), src("s2", items(m, "b")), cmd("j", ["x", "y"])],
                edges=[E("s1.out", "a.in"), E("a.out", "j.x"), E("s2.out", "j.y")])

def Z5cL(n=3, m=1, buf=1, mx=2):  # Z5c with a port-less leaf behind the join: Run is driven by the leaf while the abandoned upstream 'a' still executes
    return dict(name="Z5cL", max=mx, bufsize=buf,
                procs=[src("s1", items(n, "a")), cmd("a", ["in"]), src("s2", items(m, "b")), cmd("j", ["x", "y"]), cmd("leaf", ["x"], [])],
                edges=[E("s1.out", "a.in"), E("a.out", "j.x"), E("s2.out", "j.y"), E("j.out", "leaf.x")])

def Z20(n=6, buf=2, mx=2):     # a process stops reading early (port z closes after one item) while ONE upstream keeps feeding two of its other ports
    return dict(name="Z20", max=mx, bufsize=buf,
                procs=[src("s1", items(n, "a")), cmd("sp", ["in"], ["o1", "o2"]), src("s2", items(1, "b")), cmd("j", ["x", "y", "z"])],
                edges=[E("s1.out", "sp.in"), E("sp.o1", "j.x"), E("sp.o2", "j.y"), E("s2.out", "j.z")])

def PC3(nx=2, ny=3, nz=2, buf=1, mx=2):   # three-port ParamCombinator feeding the three parameter ports of one process
    return dict(name="PC3", max=mx, bufsize=buf,
                procs=[psrc("xs", ["x%d" % i for i in range(1, nx + 1)]), psrc("ys", ["y%d" % i for i in range(1, ny + 1)]), psrc("zs", ["z%d" % i for i in range(1, nz + 1)]),
                       dict(name="pc", kind="pcomb", params=["x", "y", "z"]), cmd("a", [], ["out"], ["x", "y", "z"])],
                edges=[], pedges=[E("xs.out", "pc.x"), E("ys.out", "pc.y"), E("zs.out", "pc.z"), E("pc.x>", "a.x"), E("pc.y>", "a.y"), E("pc.z>", "a.z")])

def PC2S(n=3, buf=1, mx=2):   # one out-port of a two-port ParamCombinator is consumed, the other one ends in the sink, as does the consumer's file output
    return dict(name="PC2S", max=mx, bufsize=buf,
                procs=[psrc("xs", ["x%d" % i for i in range(1, n + 1)]), psrc("ys", ["y1"]),      # |ys| = 1: the values on pc.x> are distinct
                       dict(name="pc", kind="pcomb", params=["x", "y"]), cmd("a", [], ["out"], ["p"])],
                edges=[], pedges=[E("xs.out", "pc.x"), E("ys.out", "pc.y"), E("pc.x>", "a.p")])

def FC2(n=2, m=3, buf=1, mx=2):   # FileCombinator with independent upstreams, both out-ports into one two-port process
    return dict(name="FC2", max=mx, bufsize=buf,
                procs=[src("s1", items(n, "a")), src("s2", items(m, "b")), dict(name="fc", kind="fcomb", ins=["x", "y"]), cmd("j", ["x", "y"])],
                edges=[E("s1.out", "fc.x"), E("s2.out", "fc.y"), E("fc.x>", "j.x"), E("fc.y>", "j.y")])

def FCS(n=2, buf=2, mx=2):   # both ports of a FileCombinator fed by ONE upstream (documented limit: at most buffer-size items)
    return dict(name="FCS", max=mx, bufsize=buf,
                procs=[src("s", items(n)), dict(name="fc", kind="fcomb", ins=["x", "y"]), cmd("j", ["x", "y"])],
                edges=[E("s.out", "fc.x"), E("s.out", "fc.y"), E("fc.x>", "j.x"), E("fc.y>", "j.y")])

def Z21(n=6, buf=2, mx=2):     # the driver (leaf) depends on a process that also has an out-port nobody consumes (drained by the sink meanwhile)
    return dict(name="Z21", max=mx, bufsize=buf,
                procs=[src("s", items(n)), cmd("a", ["in"], ["o1", "o2"]), cmd("leaf", ["x"], [])],
                edges=[E("s.out", "a.in"), E("a.o1", "leaf.x")])

def Z4T(n=2, buf=1, mx=2):     # fan-in of two task-producing upstreams into one port; the second connection is made with OutPort.To(...)
    e2 = E("m2.out", "n.x"); e2["useto"] = True
    return dict(name="Z4T", max=mx, bufsize=buf,
                procs=[src("s1", items(n, "a")), src("s2", items(n, "b")), cmd("m1", ["in"]), cmd("m2", ["in"]), cmd("n", ["x"])],
                edges=[E("s1.out", "m1.in"), E("s2.out", "m2.in"), E("m1.out", "n.x"), e2], ctl={"m2.sleep": "0.25"})

def ZCAT(n=3, buf=2, mx=2, two=False):     # a Concatenator between tasks: collects everything (one or two upstreams), then hands ONE file on
    procs = [src("s", items(n)), cmd("a", ["in"]), dict(name="cc", kind="concat", arg="o/all.txt"), cmd("b", ["in"])]
    edges = [E("s.out", "a.in"), E("a.out", "cc.in"), E("cc.out", "b.in")]
    if two:
        procs += [src("s2", items(2, "b")), cmd("a2", ["in"])]
        edges += [E("s2.out", "a2.in"), E("a2.out", "cc.in")]
    return dict(name="ZCAT", max=mx, bufsize=buf, procs=procs, edges=edges)

def ZSPLT(n=2, buf=2, mx=2, lines=2):    # a FileSplitter behind a TASK (three-line outputs): 3 // lines + 1 parts per file, each consumed by its own task
    return dict(name="ZSPLT", max=mx, bufsize=buf, procs=[src("s", items(n)), cmd("a", ["in"]), dict(name="sp", kind="splitter", arg=str(lines)), cmd("b", ["in"])],
                edges=[E("s.out", "a.in"), E("a.out", "sp.file"), E("sp.split_file", "b.in")])

def ZSPL(n=2, buf=2, mx=2, lines=1):     # a FileSplitter behind a file source: every (one-line) file becomes 1 // lines + 1 parts, forwarded as they are written
    return dict(name="ZSPL", max=mx, bufsize=buf, procs=[src("s", items(n)), dict(name="sp", kind="splitter", arg=str(lines)), cmd("b", ["in"])],
                edges=[E("s.out", "sp.file"), E("sp.split_file", "b.in")])

ZOO = dict(Z5cL=Z5cL, ZSPLT=ZSPLT, ZSPL=ZSPL, ZCAT=ZCAT, Z20=Z20, Z4T=Z4T, Z21=Z21, PC3=PC3, PC2S=PC2S, FC2=FC2, FCS=FCS, Z17=Z17, Z18=Z18, Z19=Z19, Z5c=Z5c, Z1=Z1, Z2=Z2, Z3=Z3, Z4=Z4, Z5=Z5, Z6=Z6, Z7=Z7, Z8=Z8, Z9=Z9, Z10=Z10, Z13=Z13, Z14=Z14,
           Z15=Z15, Z16=Z16, Z5b=Z5b)

# ----------------------------------------------------------------------------
def gen_graph(rng, max_procs=6, max_items=4, allow_fanin=True, allow_leaf=True, name="G"):
    """Seeded acyclic workflow: sources, cmd processes with 1-2 in-ports, 0-1 params,
    1-2 outs, fan-out, optional single-port fan-in, optional port-less process, at most
    one process without out-ports. Merge-insensitive by construction unless allow_fanin
    feeds a single-port process (then still insensitive as a set)."""
    n_src = rng.randint(1, 2)
    procs, edges, pedges, feeds = [], [], [], []
    outs_ordered = []     # (out-port, length, ordered?)
    for i in range(n_src):
        n = rng.randint(0, max_items)
        nm = "s%d" % (i + 1)
        procs.append(src(nm, items(n, "abc"[i])))
        outs_ordered.append((nm + ".out", n, True))
    n_cmd = rng.randint(1, max_procs - n_src)
    leaf_used = False
    for i in range(n_cmd):
        nm = "p%d" % (i + 1)
        nin = rng.choice([1, 1, 1, 2])
        ordered_outs = [o for o in outs_ordered if o[2]]
        ins = []
        choose_from = outs_ordered if nin == 1 else ordered_outs
        if not choose_from:
            choose_from = ordered_outs or outs_ordered
            nin = 1
        inports = ["x", "y"][:nin]
        length = None
        is_ordered = True
        for ip in inports:
            o = rng.choice(choose_from)
            edges.append(E(o[0], nm + "." + ip))
            ln = o[1]
            # optional fan-in on single-port processes
            if nin == 1 and allow_fanin and rng.random() < 0.25:
                o2 = rng.choice(outs_ordered)
                if o2[0] != o[0]:
                    edges.append(E(o2[0], nm + "." + ip))
                    ln += o2[1]
                    is_ordered = False
            if not o[2]:
                is_ordered = False
            length = ln if length is None else min(length, ln)
        params = []
        if rng.random() < 0.3 and is_ordered:      # a second port on a merged stream would make the graph merge-sensitive
            params = ["p"]
            vals = ["v%d" % k for k in range(1, rng.randint(1, max_items) + 1)]
            if rng.random() < 0.5:
                feeds.append(dict(to=nm + ".p", values=vals))
            else:
                pn = "ps%d" % (i + 1)
                procs.append(psrc(pn, vals))
                pedges.append(E(pn + ".out", nm + ".p"))
            length = min(length, len(vals))
        nout = rng.choice([1, 1, 2])
        if allow_leaf and not leaf_used and i == n_cmd - 1 and rng.random() < 0.3:
            nout = 0
            leaf_used = True
        outs = ["o1", "o2"][:nout]
        procs.append(cmd(nm, inports, outs, params, cores=rng.choice([1, 1, 2]), kind="gofunc" if rng.random() < 0.12 else "cmd"))
        for o in outs:
            outs_ordered.append((nm + "." + o, length, is_ordered))
    if rng.random() < 0.2:
        procs.append(cmd("solo", [], ["out"]))
    if rng.random() < 0.2:       # a parameter out-port nobody consumes: the sink gets a parameter stream as well
        procs.append(psrc("pdangle", ["k1", "k2", "k3"][: rng.randint(0, 3)]))
    # pass-through tagging component spliced into a source -> process edge; one-port ParamCombinator into a param edge
    if rng.random() < 0.25:
        cand = [e for e in edges if e["from"].startswith("s") and e["from"].endswith(".out")]
        if cand:
            e = rng.choice(cand)
            procs.append(dict(name="mt", kind="maptotags", tags={"lane": "l1"}))
            edges.append(E(e["from"], "mt.in")); e["from"] = "mt.out"
    if rng.random() < 0.25 and pedges:
        e = rng.choice(pedges)
        procs.append(dict(name="pc", kind="pcomb", params=["v"]))
        pedges.append(E(e["from"], "pc.v")); e["from"] = "pc.v>"
    mx = rng.choice([1, 2, 3])
    mx = max(mx, max(p.get("cores", 1) for p in procs))
    return dict(name=name, max=mx, bufsize=rng.choice([1, 2, 3]), procs=procs, edges=edges,
                pedges=pedges, feeds=feeds)
