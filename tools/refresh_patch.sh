#!/bin/bash
# refresh_patch.sh <seeded-id>: re-diff a seeded patch against the current /repo HEAD (3-way apply in a scratch worktree)
id=$1; wt=/tmp/mw/refresh_$id
mkdir -p /tmp/mw; git -C /repo worktree remove --force $wt 2>/dev/null
git -C /repo worktree add -q --detach $wt HEAD || exit 9
( cd $wt && git apply -3 /verif/seeded/$id/patch.diff && git diff HEAD > /verif/seeded/$id/patch.diff.new && GOFLAGS=-mod=mod GOPROXY=off GOSUMDB=off GOTOOLCHAIN=local go build ./... ) && mv /verif/seeded/$id/patch.diff.new /verif/seeded/$id/patch.diff && echo "refreshed $id"
git -C /repo worktree remove --force $wt
