#!/usr/bin/env python3
"""confirm_mutant.py <PROP> <mK> <needs...> -- <demo command>
Confirms a seeded change delivered by a sub-agent in /tmp/mut/<PROP>/out/<mK>:
 scratch worktree of /repo HEAD -> apply patch -> build -> existing suite -> demo fails ->
 revert -> demo passes. On success stores /verif/seeded/<PROP>_<mK>/ (patch.diff re-diffed against
 the current HEAD, demo/, notes.md, meta.json) and removes the worktree."""
import sys, os, subprocess, json, shutil, time
prop, mk = sys.argv[1], sys.argv[2]
sep = sys.argv.index("--")
needs = " ".join(sys.argv[3:sep]); demo = " ".join(sys.argv[sep+1:])
src = "/tmp/mut/%s/out/%s" % (prop, mk)
wt = "/tmp/mw/%s_%s" % (prop, mk)
env = dict(os.environ, GOFLAGS="-mod=mod", GOPROXY="off", GOSUMDB="off", GOTOOLCHAIN="local")
def sh(cmd, cwd=wt, timeout=600):
    r = subprocess.run(cmd, shell=True, cwd=cwd, env=env, capture_output=True, text=True, timeout=timeout)
    return r.returncode, (r.stdout + r.stderr)
os.makedirs("/tmp/mw", exist_ok=True)
subprocess.run("git -C /repo worktree remove --force %s" % wt, shell=True, capture_output=True)
rc, o = sh("git -C /repo worktree add -q --detach %s HEAD" % wt, cwd="/repo"); assert rc == 0, o
log = {}
try:
    shutil.copytree(os.path.dirname(src), wt + "/out", dirs_exist_ok=True)
    rc, o = sh("git apply %s/patch.diff" % src)
    if rc != 0:
        rc, o = sh("git apply -3 %s/patch.diff" % src)
        assert rc == 0, "patch does not apply: " + o
    rc, patch = sh("git diff HEAD -- . ':!out'"); assert patch.strip()
    rc, o = sh("go build ./... && go build -tags verif ./..."); assert rc == 0, "build failed: " + o[-2000:]
    log["build"] = "ok"
    rc, o = sh("go test -vet=off -count=1 . ./components ./cmd/... 2>&1 | grep -E '^(--- FAIL|FAIL|ok|panic)'")
    fails = [l for l in o.splitlines() if l.startswith("--- FAIL")]
    log["suite_with_patch"] = o.strip().splitlines()
    bad = [f for f in fails if not any(x in f for x in ("TestExecCmd_EchoFooBar", "TestEnsureFailOnMissingOutputs", "TestPlotGraph", "TestSingleProcessWorkflow"))]
    assert not bad, "suite fails with patch: %s" % bad
    sh("rm -rf log components/log _scipipe_tmp* ; git clean -fdq -e out .")
    t0 = time.time(); rc1, o1 = sh(demo, timeout=300); log["demo_with_patch"] = dict(rc=rc1, tail=o1[-1500:], s=round(time.time()-t0, 1))
    sh("git reset -q --hard HEAD ; rm -rf log components/log _scipipe_tmp*; git clean -fdq -e out .")
    t0 = time.time(); rc0, o0 = sh(demo, timeout=300); log["demo_without_patch"] = dict(rc=rc0, tail=o0[-800:], s=round(time.time()-t0, 1))
    assert rc1 != 0 and rc0 == 0, "demo does not discriminate: with=%s without=%s\n%s\n----\n%s" % (rc1, rc0, o1[-1500:], o0[-800:])
    dst = "/verif/seeded/%s_%s" % (prop, mk)
    shutil.rmtree(dst, ignore_errors=True); os.makedirs(dst)
    open(dst + "/patch.diff", "w").write(patch)
    shutil.copytree(src + "/demo", dst + "/demo")
    shutil.copy(src + "/notes.md", dst + "/notes.md")
    json.dump(dict(property=prop, id="%s_%s" % (prop, mk), needs_to_manifest=needs, demo_cmd=demo + "   (from the repository root, demo copied to out/%s/demo)" % mk,
                   confirmed=log, base_commit=subprocess.run("git -C /repo rev-parse --short HEAD", shell=True, capture_output=True, text=True).stdout.strip(),
                   detected_by=[]), open(dst + "/meta.json", "w"), indent=1)
    print("CONFIRMED", prop, mk, "->", dst)
finally:
    subprocess.run("git -C /repo worktree remove --force %s" % wt, shell=True, capture_output=True)
