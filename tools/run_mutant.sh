#!/bin/bash
# run_mutant.sh <seeded-id> <check-id>... : apply a seeded change in a scratch worktree of /repo HEAD,
# run the checks against that worktree (VERIF_REPO), remove the worktree. /repo itself is untouched,
# so several mutants can be examined in parallel. (The registered checks always use /repo.)
id=$1; shift
wt=/tmp/mw/run_$id
git -C /repo worktree remove --force $wt 2>/dev/null
git -C /repo worktree add -q --detach $wt HEAD || exit 9
trap 'git -C /repo worktree remove --force '$wt'; rm -rf /tmp/mw/build_'$id EXIT
( cd $wt && git apply /verif/seeded/$id/patch.diff ) || { echo "patch does not apply"; exit 9; }
cd /verif
for c in "$@"; do
  echo "##### $id :: check $c"
  VERIF_REPO=$wt VERIF_BUILD=/tmp/mw/build_$id VERIF_NO_EVIDENCE=1 python3 bin/check $c --tier ${TIER:-quick} > /tmp/mw/out_${id}_$c.log 2>&1
  rc=$?
  grep -E "VIOLATION|detail|DRIFT|UNDECIDED|KNOWN" /tmp/mw/out_${id}_$c.log | sed 's/replay=.*//' | sort | uniq -c | sort -rn | head -${LINES_MAX:-8}
  echo "exit=$rc"
done
