#!/usr/bin/env python3
import sys, json
mid, by = sys.argv[1], sys.argv[2:]
p = "/verif/seeded/%s/meta.json" % mid
m = json.load(open(p)); m["detected_by"] = sorted(set(m.get("detected_by", []) + by)); json.dump(m, open(p, "w"), indent=1)
print(mid, m["detected_by"])
