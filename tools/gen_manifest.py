#!/usr/bin/env python3
"""Regenerates /verif/MANIFEST.json from the table below (kept valid at all times)."""
import json
props = [json.loads(l) for l in open('/verif/properties.jsonl')]
TECH = "TLA+ specification model-checked with TLC; trace validation of real executions against the specification"
C = {}
C["C04"] = dict(design="5/C04", text="Exhaustive TLC model checking of the dataflow runtime specification (Flow.tla: every goroutine interleaving of small instances with bounded buffers) decides the design; traces recorded from the real binary on the same wfspec instances (zoo + seeded generated graphs, jittered schedules, several buffer sizes, partially pre-existing outputs) are validated step by step against the specification (FlowTrace.tla) and against permissive property monitors (Monitor.tla), and files, contents and execution counts are compared with Expected(G) evaluated by TLC.",
   note="Trusted: TLC, the Json community module, Go channel semantics as modelled, bash, the syntactic trace normaliser; code between two hooks is atomic w.r.t. modelled state; file-set determinism is only claimed for merge-insensitive graphs; at most one process without out-ports.")
C["C05"] = dict(design="5/C05", text="TLC deadlock check and termination property of Flow.tla over every interleaving of the zoo (lengths below/at/beyond the buffer, leaf drivers, port-less processes, issue-#81 architecture, unequal stream lengths) plus weakened variants that must deadlock / return early; real runs judged by the in-program snapshot at return, leftovers, the commands' own end lines, the Go runtime's deadlock report, and the monitors M_C05_* on recorded traces.",
   note="Hang is judged by the Go runtime's own deadlock report or a 40 s limit for workflows whose commands take < 0.2 s; streaming workflows are C17.")
C["C06"] = dict(design="5/C06", text="Slots.tla models the token-by-token acquisition under the mutex and the lock-free release; TLC checks the bound for every MaxSlots in 1..4 and every core assignment of 3 (quick) / 4 (thorough) tasks, and refutes the weakened variants; slot hook events of saturating real workloads (mixed cores, skipped tasks, streaming pairs) are replayed against the same abstract state (SlotsTrace.tla) whose counters are lower bounds of the real ones by hook placement; the commands' own start/end stamps give an independent sound lower bound of concurrent cores.",
   note="Trusted: hook placement (DESIGN 5/C06), the clock of one machine for the commands' own stamps, TLC.")
C["C07"] = dict(design="5/C07", text="Slots.tla liveness (<>AllDone, every waiting task runs) under weak fairness for all MaxSlots x core assignments, including the rendezvous configuration (tasks that fit together all run before any ends); weakened variants (no acquisition mutex, release under the mutex) must deadlock; on the real binary: gate-driven replay of the NoAcqMutex counter-example inside IncConcurrentTasks, rendezvous workloads, oversize CoresPerTask rejection, saturating mixed-core workloads that must finish, mutual-exclusion invariants on recorded slot events.",
   note="Gates are best effort (an order the real synchronisation forbids is skipped after 1.2 s); deadlock is taken from the Go runtime's report.")
C["C08"] = dict(design="5/C08", text="TLC explores every completion order of concurrently started tasks (Flow.tla C08_Order, weakened variant AnyDoneOrder refuted); on recorded traces of real jittered runs with random task durations and partially pre-existing outputs the per-connection send order is compared with task creation order (C08_Order in FlowTrace, M_C08_Order in Monitor) and per-upstream order through fan-in by M_C08_PerUpstream / C04_Prefix.",
   note="Order is observed at the send.begin hooks of the out-port and the receive hooks of the consumer.")
checks = []
for pid, c in sorted(C.items()):
    checks.append(dict(property_id=pid, quick_cmd="python3 bin/check %s --tier quick" % pid, thorough_cmd="python3 bin/check %s --tier thorough" % pid,
       evidence_file="/verif/evidence/%s.json" % pid, replay_cmd_template="python3 bin/check %s --replay {path}" % pid, engine="tlc+wfdriver",
       level_claimed=dict(category=c.get("level", "model_checking"), text=c["text"], design_ref=c["design"]), level_note=c["note"], technique=c.get("tech", TECH)))
NA = {"C12": "data races are unordered memory accesses; a TLA+ state machine bound by hooks cannot observe loads, stores and all synchronisation edges (DESIGN.md section 6)"}
na = [dict(property_id=p["id"], reason=NA.get(p["id"], "check not built yet in this round (planned, see DESIGN.md section 5)")) for p in props if p["id"] not in C]
m = dict(version=1, setup_cmd="python3 bin/setup",
  hooks=dict(guard="verif", enable="go build -tags verif (harness module with replace => /repo)",
             baseline_off_cmd="cd /repo && GOFLAGS=-mod=mod GOPROXY=off GOSUMDB=off GOTOOLCHAIN=local go test -vet=off -count=1 ./...",
             source_commits=["b8a5628"], add_only=True),
  engines=[dict(name="tlc+wfdriver", path="/verif/bin/check", serves_properties=sorted(C), kind_free_text="TLA+ specs in /verif/spec checked by TLC; Go driver /verif/harness/cmd/wfdriver rebuilt from /repo with -tags verif; python orchestrator /verif/lib")],
  checks=checks, notes="see DESIGN.md", not_applicable=na)
json.dump(m, open('/verif/MANIFEST.json', 'w'), indent=1)
print("claimed:", sorted(C))
