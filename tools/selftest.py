#!/usr/bin/env python3
"""Demonstrates that the specifications are BOUND to the code: a recorded trace of the real binary is accepted,
and the same trace with one field corrupted / one event removed / one snapshot entry changed is rejected."""
import sys, os, json, copy
sys.path.insert(0, os.path.join(os.path.dirname(os.path.dirname(os.path.abspath(__file__))), "lib"))
sys.path.insert(0, os.path.join(os.path.dirname(os.path.dirname(os.path.abspath(__file__))), "lib", "checks"))
from vlib import *
import zoo, flowcheck as fc, fscheck as fs

def flow():
    inst = zoo.Z3(n=3)
    exp = fc.expected(inst)
    rr = fc.real_runs(inst, [dict(env={"VERIF_JITTER": "7"}, bufsize=1)])[0]
    rows = normalize_flow(rr.events, inst, end_record(rr))
    def val(rows):
        files = {"inst.json": inst_json(inst), "trace.ndjson": ndjson(rows), "expected.json": json.dumps(exp)}
        r = run_tlc("FlowTrace", "ft.cfg", files=files, workers=1, cfgtext=fc.trace_cfg())
        return "accepted" if r.ok else ("rejected at line %s" % (r.rejected[0] if r.rejected else r.violated or r.error))
    print("FlowTrace, recorded trace (%d events):" % len(rows), val(rows))
    i = next(k for k, r in enumerate(rows) if r["e"] == "ct.recv" and not r["closed"])
    a = copy.deepcopy(rows); a[i]["item"] = "bogus"
    print("  one received item changed (line %d):" % (i + 1), val(a))
    j = next(k for k, r in enumerate(rows) if r["e"] == "conn.close")
    b = rows[:j] + rows[j + 1:]
    print("  one conn.close event removed (line %d):" % (j + 1), val(b))
    c = copy.deepcopy(rows); c[-1]["files"] = c[-1]["files"][:-1]
    print("  one file missing in the final directory listing:", val(c))
    k = next(k for k, r in enumerate(rows) if r["e"] == "wire")
    d = copy.deepcopy(rows); d[k]["procs"] = d[k]["procs"][:-1]
    print("  run set logged by the wiring phase shortened:", val(d))

def flow_generic(inst, title, mutations):
    exp = fc.expected(inst)
    rr = fc.real_runs(inst, [dict(env={"VERIF_JITTER": "7"}, bufsize=inst.get("bufsize", 1))])[0]
    rows = normalize_flow(rr.events, inst, end_record(rr))
    def val(rows):
        files = {"inst.json": inst_json(inst), "trace.ndjson": ndjson(rows), "expected.json": json.dumps(exp)}
        r = run_tlc("FlowTrace", "ft.cfg", files=files, workers=1, cfgtext=fc.trace_cfg())
        return "accepted" if r.ok else ("rejected at line %s" % (r.rejected[0] if r.rejected else r.violated or r.error))
    print("FlowTrace, %s (%d events):" % (title, len(rows)), val(rows))
    for label, fn in mutations:
        a = copy.deepcopy(rows); line = fn(a)
        print("  %s (line %s):" % (label, line), val(a))

def combinator():
    def swap(rows):     # two product values of one out-port exchanged
        idx = [k for k, r in enumerate(rows) if r["e"] == "send.begin" and r["from"] == "pc.y>"]
        i, j = idx[0], idx[1]
        rows[i]["item"], rows[j]["item"] = rows[j]["item"], rows[i]["item"]
        return i + 1
    def drop(rows):     # one send of the combinator removed (begin and done)
        i = next(k for k, r in enumerate(rows) if r["e"] == "send.begin" and r["from"] == "pc.z>")
        j = next(k for k in range(i, len(rows)) if rows[k]["e"] == "send.done" and rows[k]["from"] == "pc.z>")
        del rows[j]; del rows[i]
        return i + 1
    flow_generic(zoo.PC3(nx=1, ny=2, nz=2), "three-port ParamCombinator (its receives are silent steps)", [("two product values on one out-port exchanged", swap), ("one send of the combinator removed", drop)])

def streaming():
    inst = dict(name="ST", max=3, bufsize=2, procs=[zoo.src("s", zoo.items(2)), dict(name="p", kind="cmd", ins=["in"], outs=["out"], streams=["out"]), zoo.cmd("c", ["in"], ["out"])],
                edges=[zoo.E("s.out", "p.in"), zoo.E("p.out", "c.in")])
    def late(rows):     # the streaming IP is sent when the task is done, like an ordinary output
        i = next(k for k, r in enumerate(rows) if r["e"] == "send.begin" and r["from"] == "p.out")
        j = next(k for k in range(i, len(rows)) if rows[k]["e"] == "send.done" and rows[k]["from"] == "p.out")
        d = next(k for k, r in enumerate(rows) if r["e"] == "done.recv" and r["proc"] == "p")
        moved = [rows[i], rows[j]]
        for k in (j, i): del rows[k]
        d = next(k for k, r in enumerate(rows) if r["e"] == "done.recv" and r["proc"] == "p")
        rows[d + 1:d + 1] = moved
        return i + 1
    def nofifo(rows):   # FIFO of another item created
        i = next(k for k, r in enumerate(rows) if r["e"] == "fifo.create")
        rows[i]["item"] = "p.out_9"
        return i + 1
    flow_generic(inst, "streaming pair x 2", [("streaming IP sent only after the task is done", late), ("fifo.create names another item", nofifo)])

def drop_send(frm, to=None, nth=0):
    def fn(rows):
        idx = [k for k, r in enumerate(rows) if r["e"] == "send.begin" and r["from"] == frm and (to is None or r["to"] == to)]
        i = idx[nth]
        j = next(k for k in range(i, len(rows)) if rows[k]["e"] == "send.done" and rows[k]["from"] == frm and rows[k]["to"] == rows[i]["to"])
        del rows[j]; del rows[i]
        return i + 1
    return fn

def newkinds():
    from checks.join import join_inst
    def dropsub(rows):      # one drained sub-stream member not logged
        i = next(k for k, r in enumerate(rows) if r["e"] == "ct.sub")
        del rows[i]; return i + 1
    def othersub(rows):     # a member that was never sent into the sub-stream
        i = next(k for k, r in enumerate(rows) if r["e"] == "ct.sub")
        rows[i]["item"] = "a1.out_a9"; return i + 1
    def early(rows):        # the joined task is built before the last member was drained
        t = next(k for k, r in enumerate(rows) if r["e"] == "task.new" and r["proc"] == "cat")
        i = max(k for k, r in enumerate(rows) if r["e"] == "ct.sub" and k < t)
        rows.insert(t + 1, rows.pop(i)); return i + 1
    flow_generic(join_inst(3, -1, ",", "", 2), "sub-stream of three files into a joined in-port",
                 [("one ct.sub event removed", dropsub), ("ct.sub names a file that is not in the sub-stream", othersub), ("task built before the last member was drained", early)])
    def catitem(rows):
        i = next(k for k, r in enumerate(rows) if r["e"] == "send.begin" and r["from"] == "cc.out")
        rows[i]["item"] = "a.out_1"; return i + 1
    def catearly(rows):     # the concatenated file is handed on before the last input arrived
        i = next(k for k, r in enumerate(rows) if r["e"] == "send.begin" and r["from"] == "cc.out")
        j = next(k for k in range(i, len(rows)) if rows[k]["e"] == "send.done" and rows[k]["from"] == "cc.out")
        first = next(k for k, r in enumerate(rows) if r["e"] == "send.begin" and r["to"] == "cc.in")
        moved = [rows[i], rows[j]]
        for k in (j, i): del rows[k]
        rows[first:first] = moved
        return first + 1
    flow_generic(zoo.ZCAT(n=3), "Concatenator between tasks", [("the component hands on another file than the one it wrote", catitem), ("the file is handed on before the inputs arrived", catearly)])
    def partname(rows):
        i = next(k for k, r in enumerate(rows) if r["e"] == "send.begin" and r["from"] == "sp.split_file")
        rows[i]["item"] = rows[i]["item"][:-1] + "7"; return i + 1
    flow_generic(zoo.ZSPL(n=2), "FileSplitter behind a source", [("one part not forwarded", drop_send("sp.split_file", nth=1)), ("a part with another index", partname)])

def taskfs():
    from checks.fs import FA
    inst = FA(); exp = fc.expected(inst)
    pts = dict(fs.crash_points(inst, exp))
    h = fs.History(inst, [("run", {"VERIF_CRASH": pts["fin.rename.begin@a.o1_1"]}), ("cleanup",), ("run", None)], label="selftest"); h.exp = exp
    fs.run_history(h)
    def val(rows):
        hh = copy.copy(h); hh.rows = rows
        r = fs.validate_histories(inst, exp, [hh])
        return "accepted" if r.ok else ("rejected at line %s" % (r.rejected[0] if r.rejected else r.violated or r.error))
    print("TaskFSTrace, recorded history (%d events):" % len(h.rows), val(h.rows))
    i = next(k for k, r in enumerate(h.rows) if r["e"] == "snap")
    a = copy.deepcopy(h.rows); a[i]["tdirs"] = []
    print("  temp dir removed from the snapshot after the kill:", val(a))
    b = copy.deepcopy(h.rows); b[i]["audits"] = b[i]["audits"][:-1]
    print("  one audit file removed from the snapshot:", val(b))
    j = next(k for k, r in enumerate(h.rows) if r["e"] == "cleanup")
    c = h.rows[:j] + h.rows[j + 1:]
    print("  the cleanup step removed from the history:", val(c))

if __name__ == "__main__":
    build("wfdriver"); flow(); combinator(); streaming(); newkinds(); taskfs()
