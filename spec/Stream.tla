------------------------------- MODULE Stream -------------------------------
(***************************************************************************)
(* Streaming outputs ({os:..}): the producing process creates a named pipe *)
(* and forwards the IP BEFORE its task starts; producer and consumer task  *)
(* then run at the same time, each holding a slot, connected by the pipe.  *)
(* Pipe semantics: open-for-write blocks until a reader has opened, writes *)
(* block while Cap chunks are buffered, the reader sees EOF when the       *)
(* writer has closed and the pipe is empty.  N independent pairs compete   *)
(* for MaxSlots slots.  Rerun = TRUE models "complete run, then run again" *)
(* (consumer outputs exist, so consumers are skipped; streaming outputs    *)
(* are exempt from the skip rule, so producers are not).                   *)
(***************************************************************************)
EXTENDS Integers, Sequences, FiniteSets, TLC

CONSTANTS N, MaxSlots, Chunks, Cap, Rerun,
          Weak        \* {} | {"FifoAfterStart"} | {"NoFifoRemove"} | {"CloseEarly"}

Pairs == 1..N
VARIABLES fifo,     \* pairs whose pipe exists on disk
          sentip,   \* pairs whose streaming IP was forwarded to the consumer process
          ppc,      \* producer task: "new"|"wait"|"open"|"write"|"closed"|"ended"|"done"
          cpc,      \* consumer task: "none"|"wait"|"read"|"eof"|"ended"|"done"|"skipped"
          inpipe,   \* chunks buffered in the pipe
          wrote, got,   \* chunks written / read so far
          ropen,    \* reader has opened the pipe
          paud,     \* producer has set the audit record of the streamed IP
          caud,     \* consumer's Upstream record for the pipe: "none" | "full" | "empty"
          tokens, returned
vars == <<fifo, sentip, ppc, cpc, inpipe, wrote, got, ropen, paud, caud, tokens, returned>>

Init == /\ fifo = {} /\ sentip = {} /\ ppc = [i \in Pairs |-> "new"] /\ cpc = [i \in Pairs |-> "none"]
        /\ inpipe = [i \in Pairs |-> 0] /\ wrote = [i \in Pairs |-> 0] /\ got = [i \in Pairs |-> 0]
        /\ ropen = {} /\ paud = {} /\ caud = [i \in Pairs |-> "none"] /\ tokens = 0 /\ returned = FALSE

U(v) == UNCHANGED v
\* Run loop of the producing process: mkfifo, forward the IP, start the task
Create(i) == /\ ppc[i] = "new" /\ i \notin fifo /\ fifo' = fifo \cup {i}
             /\ U(<<sentip, ppc, cpc, inpipe, wrote, got, ropen, paud, caud, tokens, returned>>)
Forward(i) == /\ ppc[i] = "new" /\ (i \in fifo \/ "FifoAfterStart" \in Weak) /\ i \notin sentip
              /\ sentip' = sentip \cup {i} /\ ppc' = [ppc EXCEPT ![i] = "wait"]
              /\ cpc' = [cpc EXCEPT ![i] = IF Rerun THEN "skipped" ELSE "wait"]
              /\ U(<<fifo, inpipe, wrote, got, ropen, paud, caud, tokens, returned>>)
PAcquire(i) == /\ ppc[i] = "wait" /\ tokens < MaxSlots /\ tokens' = tokens + 1 /\ ppc' = [ppc EXCEPT ![i] = "open"]
               /\ U(<<fifo, sentip, cpc, inpipe, wrote, got, ropen, paud, caud, returned>>)
CAcquire(i) == /\ cpc[i] = "wait" /\ tokens < MaxSlots /\ tokens' = tokens + 1 /\ cpc' = [cpc EXCEPT ![i] = "read"]
               /\ ropen' = ropen \cup {i}       \* the command opens the pipe for reading
               /\ U(<<fifo, sentip, ppc, inpipe, wrote, got, paud, caud, returned>>)
POpen(i) == /\ ppc[i] = "open" /\ i \in ropen /\ i \in fifo    \* open(O_WRONLY) returns only when a reader is there
            /\ ppc' = [ppc EXCEPT ![i] = "write"]
            /\ U(<<fifo, sentip, cpc, inpipe, wrote, got, ropen, paud, caud, tokens, returned>>)
PWrite(i) == /\ ppc[i] = "write" /\ wrote[i] < Chunks /\ inpipe[i] < Cap
             /\ wrote' = [wrote EXCEPT ![i] = @ + 1] /\ inpipe' = [inpipe EXCEPT ![i] = @ + 1]
             /\ U(<<fifo, sentip, ppc, cpc, got, ropen, paud, caud, tokens, returned>>)
PClose(i) == /\ ppc[i] = "write" /\ (wrote[i] = Chunks \/ ("CloseEarly" \in Weak /\ wrote[i] > 0)) /\ ppc' = [ppc EXCEPT ![i] = "closed"]
             /\ U(<<fifo, sentip, cpc, inpipe, wrote, got, ropen, paud, caud, tokens, returned>>)
CRead(i) == /\ cpc[i] = "read" /\ inpipe[i] > 0 /\ inpipe' = [inpipe EXCEPT ![i] = @ - 1] /\ got' = [got EXCEPT ![i] = @ + 1]
            /\ U(<<fifo, sentip, ppc, cpc, wrote, ropen, paud, caud, tokens, returned>>)
CEof(i) == /\ cpc[i] = "read" /\ inpipe[i] = 0 /\ ppc[i] \in {"closed", "ended", "done"} /\ cpc' = [cpc EXCEPT ![i] = "eof"]
           /\ U(<<fifo, sentip, ppc, inpipe, wrote, got, ropen, paud, caud, tokens, returned>>)
\* command ends, audit record of the out-IPs is set and written, slot released
PEnd(i) == /\ ppc[i] = "closed" /\ ppc' = [ppc EXCEPT ![i] = "ended"] /\ paud' = paud \cup {i} /\ tokens' = tokens - 1
           /\ U(<<fifo, sentip, cpc, inpipe, wrote, got, ropen, caud, returned>>)
CEnd(i) == /\ cpc[i] = "eof" /\ cpc' = [cpc EXCEPT ![i] = "ended"] /\ tokens' = tokens - 1
           /\ caud' = [caud EXCEPT ![i] = IF i \in paud THEN "full" ELSE "empty"]      \* F10: producer's record not yet set
           /\ U(<<fifo, sentip, ppc, inpipe, wrote, got, ropen, paud, returned>>)
\* Run loops take Done: the producer side removes the pipe
PDone(i) == /\ ppc[i] = "ended" /\ ppc' = [ppc EXCEPT ![i] = "done"]
            /\ fifo' = IF "NoFifoRemove" \in Weak THEN fifo ELSE fifo \ {i}
            /\ U(<<sentip, cpc, inpipe, wrote, got, ropen, paud, caud, tokens, returned>>)
CDone(i) == /\ cpc[i] = "ended" /\ cpc' = [cpc EXCEPT ![i] = "done"]
            /\ U(<<fifo, sentip, ppc, inpipe, wrote, got, ropen, paud, caud, tokens, returned>>)
Return == /\ ~returned /\ \A i \in Pairs : ppc[i] = "done" /\ cpc[i] \in {"done", "skipped"}
          /\ returned' = TRUE
          /\ U(<<fifo, sentip, ppc, cpc, inpipe, wrote, got, ropen, paud, caud, tokens>>)
Stop == returned /\ UNCHANGED vars
Next == (\E i \in Pairs : Create(i) \/ Forward(i) \/ PAcquire(i) \/ CAcquire(i) \/ POpen(i) \/ PWrite(i) \/ PClose(i)
                           \/ CRead(i) \/ CEof(i) \/ PEnd(i) \/ CEnd(i) \/ PDone(i) \/ CDone(i)) \/ Return \/ Stop
Spec == Init /\ [][Next]_vars /\ WF_vars(Next)

\* C17
C17_Bytes == \A i \in Pairs : cpc[i] \in {"eof", "ended", "done"} => got[i] = Chunks /\ wrote[i] = Chunks
C17_Prefix == \A i \in Pairs : got[i] + inpipe[i] = wrote[i]
C17_PipeBeforeUse == \A i \in sentip : i \in fifo \/ ppc[i] = "done"
C17_NoTrace == returned => fifo = {}
C17_Slots == tokens <= MaxSlots
C17_AuditLink == \A i \in Pairs : caud[i] # "empty"           \* violated by the faithful model: finding F10
C17_Terminates == <>returned                                  \* with Rerun = TRUE violated: finding F5
=============================================================================
