----------------------------- MODULE Components -----------------------------
(***************************************************************************)
(* The bundled components as functions on sequences:                       *)
(*  - combine of FileCombinator / ParamCombinator transcribed (recursive,  *)
(*    with the nondeterministic key order of Go's map iteration),          *)
(*  - the lock-step filter of IPSelectorSync,                              *)
(*  - the line loop of FileSplitter, Concatenator as concatenation.        *)
(* TLC enumerates the input space, checks the advertised results and       *)
(* exports the cases for replay against the real components.               *)
(***************************************************************************)
EXTENDS Integers, Sequences, FiniteSets, TLC, Json, SequencesExt

CONSTANTS MaxPorts, MaxLen, MaxLines, MaxSplit, MaxSelPorts, MaxSelLen

PortNames == <<"a", "b", "c", "d">>
Item(p, i) == p \o ToString(i)
Stream(p, n) == [i \in 1..n |-> Item(p, i)]

(************************ combine (file_combinator.go / param_combinator.go) *****)
\* ins: function port -> sequence; keys: a permutation (sequence) of the ports
RECURSIVE Combine(_, _)
Rep(x, n) == [i \in 1..n |-> x]
RECURSIVE RepSeq(_, _)
RepSeq(s, n) == IF n = 0 THEN <<>> ELSE s \o RepSeq(s, n - 1)
Combine(ins, keys) ==
  IF Len(keys) <= 1 THEN ins
  ELSE LET hk == keys[1]
           tk == Tail(keys)
           tail == Combine([k \in ToSet(tk) |-> ins[k]], tk)
           tlen == Len(tail[tk[1]])
       IN  [k \in ToSet(keys) |->
              IF k = hk THEN FlattenSeq([i \in 1..Len(ins[hk]) |-> Rep(ins[hk][i], tlen)])
              ELSE RepSeq(tail[k], Len(ins[hk]))]

Perms(S) == {s \in [1..Cardinality(S) -> S] : \A i, j \in 1..Cardinality(S) : i # j => s[i] # s[j]}
\* advertised: the index-wise tuples across the out-ports are the Cartesian product, each exactly once
Tuples(outs, ports) == LET n == Len(outs[CHOOSE p \in ports : TRUE])
                       IN  [i \in 1..n |-> [p \in ports |-> outs[p][i]]]
Product(ins, ports) == {t \in [ports -> UNION {ToSet(ins[p]) : p \in ports}] : \A p \in ports : t[p] \in ToSet(ins[p])}
CartesianOK(ins, keys) ==
  LET ports == ToSet(keys)
      outs == Combine(ins, keys)
      tup == Tuples(outs, ports)
  IN  /\ \A p, r \in ports : Len(outs[p]) = Len(outs[r])
      /\ ToSet(tup) = Product(ins, ports)
      /\ Len(tup) = Cardinality(Product(ins, ports))

(************************ IPSelectorSync ******************************************)
\* streams of equal length; tuple i is forwarded iff every member satisfies the predicate
Selected(ins, ports, pred(_)) ==
  LET n == Len(ins[CHOOSE p \in ports : TRUE])
      keep == SelectSeq([i \in 1..n |-> i], LAMBDA i : \A p \in ports : pred(ins[p][i]))
  IN  [p \in ports |-> [j \in DOMAIN keep |-> ins[p][keep[j]]]]

(************************ FileSplitter *********************************************)
\* the loop of FileSplitter.Run over the lines: a part is closed after every n-th line and a new one opened;
\* the last (possibly empty) part is closed at EOF
RECURSIVE SplitLoop(_, _, _, _)
SplitLoop(lines, n, cur, done) ==
  IF lines = <<>> THEN Append(done, cur)
  ELSE LET c2 == Append(cur, lines[1]) IN
       IF Len(c2) = n THEN SplitLoop(Tail(lines), n, <<>>, Append(done, c2))
       ELSE SplitLoop(Tail(lines), n, c2, done)
Split(lines, n) == SplitLoop(lines, n, <<>>, <<>>)
SplitOK(lines, n) == /\ FlattenSeq(Split(lines, n)) = lines
                     /\ \A i \in DOMAIN Split(lines, n) : Len(Split(lines, n)[i]) <= n

VARIABLES kind, c
Lens == 0..MaxLen
InitComb == /\ kind = "combine"
            /\ c \in UNION {{[np |-> np, lens |-> l, keys |-> k] : l \in [1..np -> Lens], k \in Perms(1..np)} : np \in 1..MaxPorts}
InitSplit == /\ kind = "split" /\ c \in {[lines |-> nl, n |-> n] : nl \in 0..MaxLines, n \in 1..MaxSplit}
\* selector cases: np streams of equal length n, and for every item whether the predicate holds (every mask)
InitSelect == /\ kind = "select"
              /\ c \in UNION {{[np |-> np, n |-> n, mask |-> m] : m \in [1..np -> [1..n -> BOOLEAN]]} : np \in 1..MaxSelPorts, n \in 0..MaxSelLen}
Init == InitComb \/ InitSplit \/ InitSelect
Next == UNCHANGED <<kind, c>>
Spec == Init /\ [][Next]_<<kind, c>>

InsOf(cc) == [p \in {PortNames[i] : i \in 1..cc.np} |-> Stream(PortNames[CHOOSE i \in 1..cc.np : PortNames[i] = p], cc.lens[CHOOSE i \in 1..cc.np : PortNames[i] = p])]
KeysOf(cc) == [i \in 1..cc.np |-> PortNames[cc.keys[i]]]
LinesOf(n) == [i \in 1..n |-> "L" \o ToString(i)]
C19_Cartesian == kind = "combine" => CartesianOK(InsOf(c), KeysOf(c))
\* advertised for IPSelectorSync: tuple k is forwarded, on every out-port, iff all its members satisfy the predicate;
\* the out-ports stay aligned and keep the arrival order; nothing else is emitted
SelPorts(cc) == {PortNames[i] : i \in 1..cc.np}
SelIns(cc) == [p \in SelPorts(cc) |-> Stream(p, cc.n)]
SelDropped(cc) == UNION {{Item(PortNames[i], k) : k \in {k2 \in 1..cc.n : ~cc.mask[i][k2]}} : i \in 1..cc.np}
SelOuts(cc) == Selected(SelIns(cc), SelPorts(cc), LAMBDA x : x \notin SelDropped(cc))
SelKeep(cc) == {k \in 1..cc.n : \A i \in 1..cc.np : cc.mask[i][k]}
SelKeepSeq(cc) == SetToSortSeq(SelKeep(cc), <)
SelectOK(cc) ==
  LET outs == SelOuts(cc)  keep == SelKeepSeq(cc)
  IN  /\ \A p \in SelPorts(cc) : Len(outs[p]) = Len(keep)
      /\ \A p \in SelPorts(cc) : \A j \in 1..Len(keep) : outs[p][j] = Item(p, keep[j])
      /\ \A j, j2 \in 1..Len(keep) : j < j2 => keep[j] < keep[j2]
C19_Select == kind = "select" => SelectOK(c)
C19_Split == kind = "split" => SplitOK(LinesOf(c.lines), c.n)
Export == IF kind = "combine"
          THEN PrintT("CASE " \o ToJson([kind |-> "combine", lens |-> c.lens, np |-> c.np,
                                         ntuples |-> Cardinality(Product(InsOf(c), DOMAIN InsOf(c)))]))
          ELSE IF kind = "select"
          THEN PrintT("CASE " \o ToJson([kind |-> "select", np |-> c.np, n |-> c.n, mask |-> c.mask, keep |-> SelKeepSeq(c)]))
          ELSE PrintT("CASE " \o ToJson([kind |-> "split", lines |-> c.lines, n |-> c.n,
                                         parts |-> [i \in DOMAIN Split(LinesOf(c.lines), c.n) |-> Len(Split(LinesOf(c.lines), c.n)[i])]]))
=============================================================================
