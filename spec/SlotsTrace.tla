---------------------------- MODULE SlotsTrace ----------------------------
(***************************************************************************)
(* Slot events recorded from the real binary, replayed against the         *)
(* abstract state of Slots.tla (tokens held per task goroutine, mutex      *)
(* holders, commands executing).  Hook placement makes every counter a     *)
(* LOWER bound of the real one at the moment the line was written          *)
(* (slots.lock after Lock(), slots.unlock before Unlock(), dep.done after  *)
(* the deposit, rel.begin before the release, cmd.start after acquisition, *)
(* cmd.end before release), so an invariant that fails here fails in the   *)
(* real execution.                                                         *)
(***************************************************************************)
EXTENDS Integers, Sequences, FiniteSets, TLC, Json

Trace == ndJsonDeserialize("trace.ndjson")

VARIABLES l, max, cores, held, lockers, running, tokens, skipped
svars == <<l, max, cores, held, lockers, running, tokens, skipped>>

Ev == Trace[l]
Get(f, k) == IF k \in DOMAIN f THEN f[k] ELSE 0
Put(f, k, v) == IF k \in DOMAIN f THEN [f EXCEPT ![k] = v] ELSE (k :> v) @@ f

SInit == l = 1 /\ max = 0 /\ cores = <<>> /\ held = <<>> /\ lockers = {} /\ running = {} /\ tokens = 0 /\ skipped = {}

Step ==
  /\ l <= Len(Trace) /\ l' = l + 1
  /\ CASE Ev.e = "header" -> max' = Ev.max /\ cores' = <<>> /\ held' = <<>> /\ lockers' = {} /\ running' = {} /\ tokens' = 0 /\ skipped' = {}
       [] Ev.e = "exec.begin" -> cores' = Put(cores, Ev.g, Ev.cores) /\ held' = Put(held, Ev.g, 0) /\ UNCHANGED <<max, lockers, running, tokens, skipped>>
       [] Ev.e = "exec.skip" -> skipped' = skipped \cup {Ev.g} /\ UNCHANGED <<max, cores, held, lockers, running, tokens>>
       [] Ev.e = "slots.lock" -> lockers' = lockers \cup {Ev.g} /\ UNCHANGED <<max, cores, held, running, tokens, skipped>>
       [] Ev.e = "slots.unlock" -> lockers' = lockers \ {Ev.g} /\ UNCHANGED <<max, cores, held, running, tokens, skipped>>
       [] Ev.e = "slots.dep.done" -> held' = Put(held, Ev.g, Get(held, Ev.g) + 1) /\ tokens' = tokens + 1 /\ UNCHANGED <<max, cores, lockers, running, skipped>>
       [] Ev.e = "slots.rel.begin" -> held' = Put(held, Ev.g, Get(held, Ev.g) - 1) /\ tokens' = tokens - 1 /\ UNCHANGED <<max, cores, lockers, running, skipped>>
       [] Ev.e = "cmd.start" -> running' = running \cup {Ev.g} /\ UNCHANGED <<max, cores, held, lockers, tokens, skipped>>
       [] Ev.e = "cmd.end" -> running' = running \ {Ev.g} /\ UNCHANGED <<max, cores, held, lockers, tokens, skipped>>
       [] OTHER -> UNCHANGED <<max, cores, held, lockers, running, tokens, skipped>>

SSpec == SInit /\ [][Step]_svars

RECURSIVE SumC(_)
SumC(S) == IF S = {} THEN 0 ELSE LET x == CHOOSE y \in S : TRUE IN Get(cores, x) + SumC(S \ {x})

\* C06
S_C06_Bound == SumC(running) <= max
S_C06_RunningHoldsAll == \A g \in running : Get(held, g) = Get(cores, g)
S_C06_TokensBound == tokens <= max
S_C06_NoStealing == \A g \in DOMAIN held : held[g] >= 0 /\ held[g] <= Get(cores, g)
S_C06_SkippedTakeNothing == \A g \in skipped : Get(held, g) = 0
\* C07: acquisition is mutually exclusive (otherwise partial acquisitions can dead-lock)
S_C07_MutexExclusive == Cardinality(lockers) <= 1
S_C07_DepositUnderLock == (l > 1 /\ Trace[l-1].e = "slots.dep.done") => Trace[l-1].g \in lockers

ASSUME TLCSet(1, 0)
HW == IF l > TLCGet(1) THEN TLCSet(1, l) ELSE TRUE
Accepted == TLCGet(1) = Len(Trace) + 1
=============================================================================
