------------------------------ MODULE TempDir ------------------------------
(***************************************************************************)
(* The name of a task's temp directory as a function of the task identity  *)
(* (task.go TempDir): "_scipipe_tmp." + sanitised name + "." + sha1 of the *)
(* hash pieces joined WITHOUT separator, where the pieces are the raw      *)
(* name, the path segments of every in-IP (ports sorted), of every         *)
(* sub-stream member, "k_v" of params and of tags; a prefix longer than    *)
(* FoldAt bytes is folded into the hash.  sha1 is taken as injective, so   *)
(* two identities get the same directory iff PreImage and prefix agree.    *)
(* TLC enumerates a small identity space, lists the collision classes of   *)
(* the pre-image (finding F4), checks stability and the length bound, and  *)
(* exports the identities for replay against the real function.            *)
(***************************************************************************)
EXTENDS Integers, Sequences, FiniteSets, TLC, Json, SequencesExt

CONSTANTS FoldAt,     \* real value 214 (= 255 - 40 - 1); the grammar uses a small value to reach the fold
          Big         \* TRUE: the larger identity space (thorough)

\* names as sequences of characters: lower, upper and characters outside [a-z0-9_.-]
NameChars == {"p", "P", "<", ">", "_", "/"}
Names == {<<"p">>, <<"P">>, <<"p", "<">>, <<"p", ">">>, <<"p", "p", "p", "p">>, <<"p", "/", "p">>}
         \cup (IF Big THEN {<<"p", "_">>, <<"p", "<", ">">>, <<"p", "p">>} ELSE {})
Lower(c) == IF c = "P" THEN "p" ELSE c
Allowed(c) == c \in {"p", "_"}
RECURSIVE San(_, _)
San(cs, inrun) == IF cs = <<>> THEN <<>>
                  ELSE LET c == Lower(cs[1]) IN
                       IF Allowed(c) THEN <<c>> \o San(Tail(cs), FALSE)
                       ELSE (IF inrun THEN <<>> ELSE <<"_">>) \o San(Tail(cs), TRUE)
Sanitize(cs) == San(cs, FALSE)
RECURSIVE Cat(_)
Cat(cs) == IF cs = <<>> THEN "" ELSE cs[1] \o Cat(Tail(cs))

\* input paths: absolute or relative, sequences of segments.  Weak = {"OldSplit"} is the transcription of splitAllPaths
\* before the fix of F17 (loop "for dir != file": the root is dropped, and a relative path whose first two segments are equal
\* loses both of them); the faithful version keeps every element and a marker for the root.
CONSTANT Weak
P(abs, segs) == [abs |-> abs, segs |-> segs]
PathsY == { P(FALSE, <<"a">>), P(FALSE, <<"a", "b">>), P(FALSE, <<"a", "bc">>), P(FALSE, <<"ab", "c">>) }
PathsX == PathsY \cup { P(TRUE, <<"a", "b">>), P(FALSE, <<"a", "a", "b">>), P(FALSE, <<"b">>), P(FALSE, <<"..", "a", "b">>) }
          \cup (IF Big THEN {P(FALSE, <<"ab">>), P(FALSE, <<"b", "c">>), P(FALSE, <<"a", "a">>), P(FALSE, <<"b", "b">>), P(TRUE, <<"a">>)} ELSE {})
NoPath == P(FALSE, <<>>)
Split(p) == IF "OldSplit" \in Weak
            THEN (IF ~p.abs /\ Len(p.segs) >= 2 /\ p.segs[1] = p.segs[2] THEN SubSeq(p.segs, 3, Len(p.segs)) ELSE p.segs)
            ELSE (IF p.abs THEN <<"/">> ELSE <<>>) \o p.segs
\* parameters: none, one value, or two parameters whose names differ only in letter case (sorted byte-wise: K before k)
ParamVals == {"1", "a1", "1b", "kK"}
NoParam == "-"
ParamPieces(kv) == IF kv = NoParam THEN <<>> ELSE IF kv = "kK" THEN <<"K_2", "k_1">> ELSE <<"k_" \o kv>>

Ids == {[name |-> n, x |-> px, y |-> py, k |-> kv, t |-> tv] :
          n \in Names, px \in PathsX, py \in PathsY \cup {NoPath}, kv \in ParamVals \cup {NoParam}, tv \in {NoParam, "1"}}

RECURSIVE CatS(_)
CatS(ss) == IF ss = <<>> THEN "" ELSE ss[1] \o CatS(Tail(ss))
Pieces(i) == <<Cat(i.name)>> \o Split(i.x) \o Split(i.y)
             \o ParamPieces(i.k)
             \o (IF i.t = NoParam THEN <<>> ELSE <<"x.g_" \o i.t>>)
Prefix(i) == "_scipipe_tmp." \o Cat(Sanitize(i.name))
Folded(i) == Len(Prefix(i)) > FoldAt
PreImage(i) == CatS(Pieces(i) \o (IF Folded(i) THEN <<Prefix(i)>> ELSE <<>>))
DirPrefix(i) == IF Folded(i) THEN "_scipipe_tmp" ELSE Prefix(i)
PreTab == [i \in Ids |-> PreImage(i)]
PfxTab == [i \in Ids |-> DirPrefix(i)]
PcsTab == [i \in Ids |-> CatS(Pieces(i))]
SameDir(i, j) == PfxTab[i] = PfxTab[j] /\ PreTab[i] = PreTab[j]
NameLen(i) == Len(DirPrefix(i)) + 1 + 40

\* C14 on the transcription
C14_Length == \A i \in Ids : NameLen(i) <= FoldAt + 41
Collisions == {<<i, j>> \in Ids \X Ids : i # j /\ SameDir(i, j)}
\* every collision of the transcription is of the F4 kind: DIFFERENT piece sequences with equal concatenation;
\* identities that differ never have the same piece sequence (the weakened split violates this: F17)
SamePieces == {c \in Collisions : Pieces(c[1]) = Pieces(c[2])}
C14_OnlyF4 == \A c \in Collisions : PcsTab[c[1]] = PcsTab[c[2]]

RECURSIVE JoinSlash(_)
JoinSlash(ss) == IF ss = <<>> THEN "" ELSE IF Len(ss) = 1 THEN ss[1] ELSE ss[1] \o "/" \o JoinSlash(Tail(ss))
PathStr(p) == (IF p.abs THEN "/" ELSE "") \o JoinSlash(p.segs)
IdJson(i) == [name |-> Cat(i.name), x |-> PathStr(i.x), y |-> PathStr(i.y), k |-> i.k, t |-> i.t,
              pre |-> PreTab[i], prefix |-> PfxTab[i], pcs |-> Pieces(i)]

ASSUME C14_Length
ASSUME C14_OnlyF4
ASSUME PrintT("NCOLLISIONS " \o ToString(Cardinality(Collisions)))
ASSUME PrintT("NSAMEPIECES " \o ToString(Cardinality(SamePieces)))
ASSUME PrintT("IDS " \o ToJson({IdJson(i) : i \in Ids}))

VARIABLE z
Init == z = 0
Next == UNCHANGED z
Spec == Init /\ [][Next]_z
=============================================================================
