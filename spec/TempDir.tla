------------------------------ MODULE TempDir ------------------------------
(***************************************************************************)
(* The name of a task's temp directory as a function of the task identity  *)
(* (task.go TempDir): "_scipipe_tmp." + sanitised name + "." + sha1 of the *)
(* hash pieces joined WITHOUT separator, where the pieces are the raw      *)
(* name, the path segments of every in-IP (ports sorted), of every         *)
(* sub-stream member, "k_v" of params and of tags; a prefix longer than    *)
(* FoldAt bytes is folded into the hash.  sha1 is taken as injective, so   *)
(* two identities get the same directory iff PreImage and prefix agree.    *)
(* TLC enumerates a small identity space, lists the collision classes of   *)
(* the pre-image (finding F4), checks stability and the length bound, and  *)
(* exports the identities for replay against the real function.            *)
(***************************************************************************)
EXTENDS Integers, Sequences, FiniteSets, TLC, Json, SequencesExt

CONSTANTS FoldAt,     \* real value 214 (= 255 - 40 - 1); the grammar uses a small value to reach the fold
          Big         \* TRUE: the larger identity space (thorough)

\* names as sequences of characters: lower, upper and characters outside [a-z0-9_.-]
NameChars == {"p", "P", "<", ">", "_"}
Names == {<<"p">>, <<"P">>, <<"p", "<">>, <<"p", ">">>, <<"p", "p", "p", "p">>}
         \cup (IF Big THEN {<<"p", "_">>, <<"p", "<", ">">>, <<"p", "p">>} ELSE {})
Lower(c) == IF c = "P" THEN "p" ELSE c
Allowed(c) == c \in {"p", "_"}
RECURSIVE San(_, _)
San(cs, inrun) == IF cs = <<>> THEN <<>>
                  ELSE LET c == Lower(cs[1]) IN
                       IF Allowed(c) THEN <<c>> \o San(Tail(cs), FALSE)
                       ELSE (IF inrun THEN <<>> ELSE <<"_">>) \o San(Tail(cs), TRUE)
Sanitize(cs) == San(cs, FALSE)
RECURSIVE Cat(_)
Cat(cs) == IF cs = <<>> THEN "" ELSE cs[1] \o Cat(Tail(cs))

\* paths as sequences of segments
PathsX == { <<"a">>, <<"a", "b">>, <<"a", "bc">>, <<"ab", "c">> } \cup (IF Big THEN {<<"ab">>, <<"b", "c">>} ELSE {})
ParamVals == {"1", "a1", "1b"}
NoParam == "-"

Ids == {[name |-> n, x |-> px, y |-> py, k |-> kv, t |-> tv] :
          n \in Names, px \in PathsX, py \in PathsX \cup {<<>>}, kv \in ParamVals \cup {NoParam}, tv \in {NoParam, "1"}}

RECURSIVE CatS(_)
CatS(ss) == IF ss = <<>> THEN "" ELSE ss[1] \o CatS(Tail(ss))
Pieces(i) == <<Cat(i.name)>> \o i.x \o i.y
             \o (IF i.k = NoParam THEN <<>> ELSE <<"k_" \o i.k>>)
             \o (IF i.t = NoParam THEN <<>> ELSE <<"x.g_" \o i.t>>)
Prefix(i) == "_scipipe_tmp." \o Cat(Sanitize(i.name))
Folded(i) == Len(Prefix(i)) > FoldAt
PreImage(i) == CatS(Pieces(i) \o (IF Folded(i) THEN <<Prefix(i)>> ELSE <<>>))
DirPrefix(i) == IF Folded(i) THEN "_scipipe_tmp" ELSE Prefix(i)
PreTab == [i \in Ids |-> PreImage(i)]
PfxTab == [i \in Ids |-> DirPrefix(i)]
PcsTab == [i \in Ids |-> CatS(Pieces(i))]
SameDir(i, j) == PfxTab[i] = PfxTab[j] /\ PreTab[i] = PreTab[j]
NameLen(i) == Len(DirPrefix(i)) + 1 + 40

\* C14 on the transcription
C14_Length == \A i \in Ids : NameLen(i) <= FoldAt + 41
Collisions == {<<i, j>> \in Ids \X Ids : i # j /\ SameDir(i, j)}
\* every collision of the transcription is of the F4 kind: equal concatenation of pieces
C14_OnlyF4 == \A c \in Collisions : PcsTab[c[1]] = PcsTab[c[2]]

RECURSIVE JoinSlash(_)
JoinSlash(ss) == IF ss = <<>> THEN "" ELSE IF Len(ss) = 1 THEN ss[1] ELSE ss[1] \o "/" \o JoinSlash(Tail(ss))
IdJson(i) == [name |-> Cat(i.name), x |-> JoinSlash(i.x), y |-> JoinSlash(i.y), k |-> i.k, t |-> i.t,
              pre |-> PreTab[i], prefix |-> PfxTab[i]]

ASSUME C14_Length
ASSUME C14_OnlyF4
ASSUME PrintT("NCOLLISIONS " \o ToString(Cardinality(Collisions)))
ASSUME PrintT("IDS " \o ToJson({IdJson(i) : i \in Ids}))

VARIABLE z
Init == z = 0
Next == UNCHANGED z
Spec == Init /\ [][Next]_z
=============================================================================
