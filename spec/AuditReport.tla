---------------------------- MODULE AuditReport ----------------------------
(***************************************************************************)
(* Flattening an audit tree for the reports of `scipipe audit2html`,       *)
(* `audit2tex`, `audit2bash` (cmd/scipipe/audit_reports.go):               *)
(* extractAuditInfosByID collects the records of the lineage by ID,        *)
(* sortAuditInfosByStartTime orders them by start time (ID as tie-break).  *)
(* Property: every task of the lineage is listed exactly once, in          *)
(* non-decreasing start-time order.  TLC enumerates all DAGs of up to N    *)
(* records (shared ancestors reached through several paths, task-less      *)
(* source records, equal and zero start times, an earlier task finishing   *)
(* later) and exports them as audit trees for the real CLI.                *)
(***************************************************************************)
EXTENDS Integers, Sequences, FiniteSets, TLC, Json, SequencesExt

CONSTANTS N,          \* records 1..N, record N is the root (the file whose audit log is converted)
          Times,      \* possible start times, e.g. {0, 1, 2}
          KeyByTime   \* TRUE: transcription of the old code (map keyed by start time) - finding F6

Recs == 1..N
VARIABLES ups,    \* record -> set of upstream records (smaller numbers: acyclic)
          st,     \* record -> start time
          dur     \* record -> duration (finish = start + dur)
vars == <<ups, st, dur>>

RECURSIVE Reach(_)
Reach(S) == LET T == S \cup UNION {ups[r] : r \in S} IN IF T = S THEN S ELSE Reach(T)
Lineage == Reach({N})

Init == /\ ups \in [Recs -> SUBSET Recs] /\ \A r \in Recs : \A u \in ups[r] : u < r
        /\ Reach({N}) = Recs                       \* every record belongs to the lineage of the root
        /\ st \in [Recs -> Times]
        /\ \A r \in Recs : \A u \in ups[r] : st[u] <= st[r]
        /\ dur \in [Recs -> {1, 3}]
Next == UNCHANGED vars
Spec == Init /\ [][Next]_vars

\* the listing computed by the code
SortedBy(S) == CHOOSE s \in [1..Cardinality(S) -> S] :
                  /\ \A i, j \in DOMAIN s : i # j => s[i] # s[j]
                  /\ \A i, j \in DOMAIN s : i < j => (st[s[i]] < st[s[j]] \/ (st[s[i]] = st[s[j]] /\ s[i] < s[j]))
\* old code: records keyed by start time in a map (one survivor per time), then one entry per record's time
ByTime(t) == CHOOSE r \in Lineage : st[r] = t /\ \A q \in Lineage : st[q] = t => q <= r
Listing == IF KeyByTime
           THEN LET s == SortedBy(Lineage) IN [i \in DOMAIN s |-> ByTime(st[s[i]])]
           ELSE SortedBy(Lineage)

C20_EachOnce == /\ ToSet(Listing) = Lineage /\ Len(Listing) = Cardinality(Lineage)
C20_Ordered == \A i, j \in DOMAIN Listing : i < j => st[Listing[i]] <= st[Listing[j]]

RECURSIVE Tree(_)
Tree(r) == [id |-> r, start |-> st[r], finish |-> st[r] + dur[r], ups |-> {Tree(u) : u \in ups[r]}]
Export == PrintT("CASE " \o ToJson([tree |-> Tree(N), n |-> N, ties |-> \E a, b \in Recs : a # b /\ st[a] = st[b],
                                   inverted |-> \E a, b \in Recs : st[a] < st[b] /\ st[a] + dur[a] > st[b] + dur[b]]))
=============================================================================
