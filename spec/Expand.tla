------------------------------- MODULE Expand -------------------------------
(***************************************************************************)
(* The documented expansion rules of placeholders and path modifiers       *)
(* (docs/writing_workflows.md): basename, dirname, %<suffix>, s/a/b/,      *)
(* applied left to right to the value of the port / parameter / tag, and   *)
(* the default output name.  Values are sequences of characters; TLC       *)
(* enumerates values x modifier chains x contexts inside the domain where  *)
(* the documentation is unambiguous and exports (pattern, value, expected) *)
(* for replay against the real Task.Command / path functions.              *)
(***************************************************************************)
EXTENDS Integers, Sequences, FiniteSets, TLC, Json, SequencesExt

CONSTANT MaxChain      \* modifier chains of length 0..MaxChain

C(s) == s   \* values are written as sequences of one-character strings
Values == { <<"f",".","t","x","t">>,
            <<"d","/","f",".","t","x","t">>,
            <<"d","/","e","/","f",".","x",".","t","x","t">>,
            <<"d","a","t","a","/","r","e","s","u","l","t",".","t","x","t">>,
            <<"m","a","t","r","i","x">>,
            <<"v","1",".">>,
            <<"/","a","b","s","/","t","e","x","t",".","t","x","t">>,
            <<"d","/","m","y","t","x","t",".","t","x","t">> }

RECURSIVE Cat(_)
Cat(cs) == IF cs = <<>> THEN "" ELSE cs[1] \o Cat(Tail(cs))

HasSlash(s) == \E i \in DOMAIN s : s[i] = "/"
LastSlash(s) == CHOOSE i \in DOMAIN s : s[i] = "/" /\ \A j \in DOMAIN s : s[j] = "/" => j <= i
Basename(s) == IF HasSlash(s) THEN SubSeq(s, LastSlash(s) + 1, Len(s)) ELSE s
Dirname(s)  == IF HasSlash(s) THEN SubSeq(s, 1, LastSlash(s) - 1) ELSE s
EndsWith(s, suf) == Len(s) >= Len(suf) /\ SubSeq(s, Len(s) - Len(suf) + 1, Len(s)) = suf
TrimEnd(s, suf) == IF Len(s) > Len(suf) /\ EndsWith(s, suf) THEN SubSeq(s, 1, Len(s) - Len(suf)) ELSE s
Occs(s, a) == {i \in 1..(Len(s) - Len(a) + 1) : SubSeq(s, i, i + Len(a) - 1) = a}
Subst(s, a, b) == IF Occs(s, a) = {} THEN s
                  ELSE LET i == CHOOSE k \in Occs(s, a) : \A m \in Occs(s, a) : k <= m
                       IN SubSeq(s, 1, i - 1) \o b \o SubSeq(s, i + Len(a), Len(s))

\* modifiers: [kind, a, b]
Mods == { [kind |-> "basename", a |-> <<>>, b |-> <<>>], [kind |-> "dirname", a |-> <<>>, b |-> <<>>],
          [kind |-> "trim", a |-> <<".","t","x","t">>, b |-> <<>>], [kind |-> "trim", a |-> <<".","x",".","t","x","t">>, b |-> <<>>],
          [kind |-> "trim", a |-> <<"x">>, b |-> <<>>],
          [kind |-> "subst", a |-> <<"f">>, b |-> <<"g","g">>], [kind |-> "subst", a |-> <<"t","x","t">>, b |-> <<"c","s","v">>],
          [kind |-> "subst", a |-> <<"d">>, b |-> <<>>],
          \* the search string is a literal, not a pattern: a dot matches a dot only
          [kind |-> "subst", a |-> <<".","t","x","t">>, b |-> <<>>], [kind |-> "subst", a |-> <<".">>, b |-> <<"_">>] }
ModStr(m) == CASE m.kind = "basename" -> "basename" [] m.kind = "dirname" -> "dirname"
               [] m.kind = "trim" -> "%" \o Cat(m.a)
               [] m.kind = "subst" -> "s/" \o Cat(m.a) \o "/" \o Cat(m.b) \o "/"
Apply1(s, m) == CASE m.kind = "basename" -> Basename(s) [] m.kind = "dirname" -> Dirname(s)
                  [] m.kind = "trim" -> TrimEnd(s, m.a) [] m.kind = "subst" -> Subst(s, m.a, m.b)
RECURSIVE ApplyAll(_, _)
ApplyAll(s, ms) == IF ms = <<>> THEN s ELSE ApplyAll(Apply1(s, ms[1]), Tail(ms))

\* the domain in which the documentation says what happens
InDomain1(s, m) == CASE m.kind = "dirname" -> HasSlash(s) /\ LastSlash(s) > 1
                     [] m.kind = "trim" -> TRUE      \* a suffix that is not there (or is the whole value) leaves the value as it is
                     [] m.kind = "subst" -> TRUE     \* the first occurrence is replaced, no occurrence: unchanged
                     [] OTHER -> TRUE
RECURSIVE InDomain(_, _)
InDomain(s, ms) == ms = <<>> \/ (InDomain1(s, ms[1]) /\ Apply1(s, ms[1]) # <<>> /\ InDomain(Apply1(s, ms[1]), Tail(ms)))

RECURSIVE Chains(_)
Chains(n) == IF n = 0 THEN {<<>>} ELSE Chains(n - 1) \cup {Append(c, m) : c \in Chains(n - 1), m \in Mods}

RECURSIVE ModsStr(_)
ModsStr(ms) == IF ms = <<>> THEN "" ELSE "|" \o ModStr(ms[1]) \o ModsStr(Tail(ms))
HasBasename(ms) == \E i \in DOMAIN ms : ms[i].kind = "basename"
IsAbs(s) == s # <<>> /\ s[1] = "/"

\* command context, in-port: value of the port = path of the received file; "../" is put in front of a
\* relative result (the command runs inside the temp dir) unless basename was applied
InCmd(v, ms) == LET r == ApplyAll(v, ms) IN IF HasBasename(ms) \/ IsAbs(r) THEN Cat(r) ELSE "../" \o Cat(r)
\* parameter / tag in a command, and every placeholder in an output-path pattern: just the modified value
Plain(v, ms) == Cat(ApplyAll(v, ms))

VARIABLES v, ms
Init == v \in Values /\ ms \in Chains(MaxChain) /\ InDomain(v, ms)
Next == UNCHANGED <<v, ms>>
Spec == Init /\ [][Next]_<<v, ms>>

\* sanity of the transcription (vacuity: modifiers really change something somewhere)
E_Idempotent == ApplyAll(v, <<>>) = v
Export == PrintT("CASE " \o ToJson([value |-> Cat(v), mods |-> ModsStr(ms), incmd |-> InCmd(v, ms), plain |-> Plain(v, ms)]))
=============================================================================
