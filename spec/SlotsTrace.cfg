SPECIFICATION SSpec
CONSTRAINT HW
POSTCONDITION Accepted
CHECK_DEADLOCK FALSE
INVARIANTS S_C06_Bound S_C06_RunningHoldsAll S_C06_TokensBound S_C06_NoStealing S_C06_SkippedTakeNothing S_C07_MutexExclusive S_C07_DepositUnderLock
