----------------------------- MODULE FlowTrace -----------------------------
(***************************************************************************)
(* Trace acceptor for Flow.tla: replays executions recorded from the real  *)
(* scipipe binary (hook events, normalised syntactically by the harness)   *)
(* through the actions of Flow in acceptor mode (Closed = FALSE).  Every   *)
(* line of trace.ndjson is consumed by exactly one action; several traces  *)
(* of the same instance are concatenated, separated by "header" lines.     *)
(* All property invariants of Flow are INVARIANTS of the validation run,   *)
(* i.e. they are evaluated in every state of the observed behaviour.       *)
(***************************************************************************)
EXTENDS Flow

Trace == ndJsonDeserialize("trace.ndjson")

VARIABLE l        \* index of the next trace line

tvars == <<vars, l>>

Ev == Trace[l]
Is(e) == l <= Len(Trace) /\ Ev.e = e /\ l' = l + 1

KOf(n, key) == {k \in DOMAIN tk[n] : tk[n][k].key = key}

TraceInit == Init /\ l = 1

\* a new recorded run of the same instance starts
TReset == /\ Is("header")
          /\ phase' = (IF WiringFails THEN "failed" ELSE "init")
          /\ q' = [port \in AllInPorts |-> <<>>]
          /\ ups' = [port \in AllInPorts |-> InitUps(port)]
          /\ em' = EmInit
          /\ relayed' = [e \in Relays |-> <<>>]
          /\ rpc' = [n \in CmdRun |-> "idle"]
          /\ ctpc' = [n \in CmdRun |-> "off"]
          /\ ctleft' = [n \in CmdRun |-> {}]
          /\ ctgot' = [n \in CmdRun |-> <<>>]
          /\ ctopen' = [n \in CmdRun |-> TRUE]
          /\ offer' = [n \in CmdRun |-> <<>>]
          /\ tasksnil' = [n \in CmdRun |-> FALSE]
          /\ tk' = [n \in CmdRun |-> <<>>]
          /\ ts' = [n \in CmdRun |-> <<>>]
          /\ started' = [n \in CmdRun |-> <<>>]
          /\ sout' = [n \in CmdRun |-> [left |-> {}, wait |-> <<>>, n |-> 0]]
          /\ cl' = [x \in CmdRun \cup EmIds |-> {}]
          /\ tokens' = 0
          /\ final' = Pre
          /\ failed' = {}
          /\ execs' = <<>>
          /\ emitted' = [op \in AllOuts |-> <<>>]
          /\ recvd' = [port \in AllInPorts |-> <<>>]
          /\ strm' = StrmInit
          /\ cb' = CbInit
          /\ csub' = CsubInit

\* result of the wiring phase as logged by the implementation = static wiring of the model
TWire == /\ Is("wire")
         /\ ToSet(Ev.procs) \cup (IF Driver = "SINK" THEN {} ELSE {Driver}) = RunSet   \* the driver runs in main
         /\ Ev.driver = Driver
         /\ ToSet(Ev.sink) = SinkUps \cup PSinkUps
         /\ Ev.max = MaxSlots
         /\ UNCHANGED vars

TStart == Is("run.start") /\ StartProcs

TSendBegin ==
  /\ Is("send.begin")
  /\ \/ \E e \in EmIds : EmOut(e) = Ev.from /\ EmSendBegin(e, Ev.to)
     \/ \E n \in CmdRun : SendOutBegin(n, Ev.from, Ev.to) \/ FifoSendBegin(n, Ev.from, Ev.to)
  /\ Last(q'[Ev.to]) = <<Ev.from, Ev.item>>

TSendDone ==
  /\ Is("send.done")
  /\ \/ \E e \in EmIds : EmOut(e) = Ev.from /\ EmSendDone(e, Ev.to)
     \/ \E n \in CmdRun : SendOutDone(n, Ev.from, Ev.to) \/ FifoSendDone(n, Ev.from, Ev.to)

\* an emitter has sent everything (inserted by the harness in front of its first conn.close)
TEmFinish == Is("em.finish") /\ \E e \in EmIds : EmOut(e) = Ev.from /\ EmFinish(e)

TClose ==
  /\ Is("conn.close")
  /\ \E x \in EmIds \cup CmdRun : CloseConn(x, Ev.from, Ev.port)
  /\ Cardinality(ups'[Ev.port]) = Ev.left

TRelayRecv ==
  /\ Is("relay.recv")
  /\ IF Ev.closed THEN RelayRecv(Ev.proc, 0)
     ELSE \E i \in DOMAIN q[Ev.port] : q[Ev.port][i][2] = Ev.item /\ RelayRecv(Ev.proc, i)

\* FIFO created for a streaming output of the task just taken / removed when its Done was received
TFifoCreate == Is("fifo.create") /\ Ev.item \in strm.fifos /\ rpc[Ev.proc] = "sendfifo" /\ UNCHANGED vars
TFifoRemove == Is("fifo.remove") /\ Ev.item \notin strm.fifos /\ Ev.item \in strm.wopen /\ UNCHANGED vars

TProcStart == Is("proc.start") /\ ProcStart(Ev.proc) /\ phase' = phase /\ PR(Ev.proc).cores = Ev.cores

TRecv ==
  /\ Is("ct.recv")
  /\ IF Ev.closed
     THEN CTRecv(Ev.proc, Ev.port, 0)
     ELSE \E i \in DOMAIN q[Ev.port] : q[Ev.port][i][2] = Ev.item /\ CTRecv(Ev.proc, Ev.port, i)

TTaskNew ==
  /\ Is("task.new")
  /\ CTOffer(Ev.proc) /\ phase' = phase
  /\ Last(tk'[Ev.proc]).key = Ev.key
  /\ Last(tk'[Ev.proc]).out = Ev.outs

TTaskTake ==
  /\ Is("task.take")
  /\ offer[Ev.proc] # <<>> /\ tk[Ev.proc][Head(offer[Ev.proc])].key = Ev.key
  /\ TakeTask(Ev.proc)

TSimple(e, A(_)) == Is(e) /\ A(Ev.proc)

TTask(e, A(_, _)) == Is(e) /\ \E k \in KOf(Ev.proc, Ev.key) : A(Ev.proc, k)

TDoneRecv ==
  /\ Is("done.recv")
  /\ started[Ev.proc] # <<>> /\ tk[Ev.proc][Head(started[Ev.proc])].key = Ev.key
  /\ TakeDone(Ev.proc)

TSinkRecv ==
  /\ Is("sink.recv")
  /\ \E i \in DOMAIN q[Ev.port] : q[Ev.port][i][2] = Ev.item /\ SinkRecv(Ev.port, i)

\* os.Exit(1) through Fail: must be a failure the model allows at this point
TFail ==
  /\ Is("fail")
  /\ \/ \E n \in CmdRun : \E k \in DOMAIN ts[n] :
           tk[n][k].key = Ev.key /\ (CmdFail(n, k) \/ EnsureFail(n, k))
     \/ \E n \in CmdRun : n = Ev.proc /\ ProcStart(n) /\ phase' = "failed"
     \/ \E n \in CmdRun : n = Ev.proc /\ CTOffer(n) /\ phase' = "failed"

TReturn == Is("run.return") /\ MainReturn

\* end of the recorded run: what the harness observed from outside
TEnd ==
  /\ Is("end")
  /\ Ev.completed <=> (phase = "returned")
  /\ (Ev.exit # 0) <=> (phase = "failed")
  /\ phase \in {"returned", "failed"}
  /\ IF phase = "returned"
     THEN ToSet(Ev.files) = final \cup CatFiles
     ELSE /\ final \subseteq ToSet(Ev.files)
          /\ ToSet(Ev.files) \ final \subseteq CatFiles \cup
                UNION {TOuts(n, k) : <<n, k>> \in {<<n2, k2>> \in UNION {{n3} \X DOMAIN ts[n3] : n3 \in CmdRun} :
                                                     ts[n2][k2] \in {"ended", "published"}}}
  /\ Ev.execs = execs
  /\ UNCHANGED vars

\* the components have no hooks at their receives: draining, combine() and wg.Wait() are silent steps
\* ... and so are the choice of the next joined in-port and the end of its sub-stream (the members themselves are logged: "ct.sub")
SubSilent == \E n \in CmdRun : \/ \E jp \in JoinPortsOf(n) : CTSubPick(n, jp)
                               \/ (csub[n].cur # "" /\ ctpc[n] = "build" /\ CTSub(n, 0))
TSilent == (CombStep \/ SubSilent) /\ UNCHANGED l
TSub == /\ Is("ct.sub")
        /\ csub[Ev.proc].cur = Ev.port /\ ctpc[Ev.proc] = "build"
        /\ \E i \in DOMAIN q[SubChan(Ev.proc)] : q[SubChan(Ev.proc)][i][2] = Ev.item /\ CTSub(Ev.proc, i)

TraceNext ==
  \/ TSilent \/ TSub
  \/ TReset \/ TRelayRecv \/ TEmFinish \/ TWire \/ TStart \/ TSendBegin \/ TSendDone \/ TClose \/ TProcStart \/ TRecv
  \/ TTaskNew \/ TTaskTake \/ TFifoCreate \/ TFifoRemove \/ TDoneRecv \/ TSinkRecv \/ TFail \/ TReturn \/ TEnd
  \/ TSimple("ct.end", CTEnd) \/ TSimple("tasks.closed", TasksClosed) \/ TSimple("proc.exit", RunExit)
  \/ TTask("exec.begin", ExBegin) \/ TTask("exec.skip", ExSkip) \/ TTask("exec.acquired", Acquire)
  \/ TTask("cmd.start", CmdStart) \/ TTask("cmd.end", CmdEnd) \/ TTask("publish", Publish)
  \/ TTask("release", Release)

TraceSpec == TraceInit /\ [][TraceNext]_tvars

\* acceptance: the high-water mark of l must reach the end of the trace
ASSUME TLCSet(1, 0)
HW == IF l > TLCGet(1) THEN TLCSet(1, l) ELSE TRUE
Accepted == IF TLCGet(1) = Len(Trace) + 1 THEN TRUE
            ELSE /\ PrintT(<<"REJECTED at line", TLCGet(1), Trace[TLCGet(1)]>>)
                 /\ FALSE
=============================================================================
