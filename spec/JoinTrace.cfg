SPECIFICATION JSpec
CONSTRAINT HW
POSTCONDITION Accepted
CHECK_DEADLOCK FALSE
INVARIANTS J_C18_Order J_C18_Once J_C18_Task J_C18_OneTask
