------------------------------- MODULE Slots -------------------------------
(***************************************************************************)
(* The task-slot mechanism of a scipipe workflow at the grain of the code  *)
(* (workflow.go IncConcurrentTasks / DecConcurrentTasks, task.go Execute): *)
(* a buffered channel of MaxSlots tokens; a task deposits CoresPerTask     *)
(* tokens ONE BY ONE while holding the acquisition mutex, runs its         *)
(* command, and takes its tokens back one by one WITHOUT the mutex.        *)
(*                                                                         *)
(* Init chooses MaxSlots in 1..MaxMax and every core assignment of N tasks *)
(* with cores <= MaxSlots, so one TLC run covers all configurations.       *)
(***************************************************************************)
EXTENDS Integers, FiniteSets, Sequences, TLC

CONSTANTS N,          \* number of concurrently ready tasks
          MaxMax,     \* MaxSlots ranges over 1..MaxMax
          Weak,       \* {} or subset of {"NoAcqMutex", "ReleaseBeforeEnd", "OneTokenPerTask", "LockedRelease"}
          Rendezvous  \* TRUE: no command ends before all commands run (work-conservation scenario:
                      \*       only core assignments that fit together are generated)

Tasks == 1..N

VARIABLES max,     \* MaxSlots
          cores,   \* task -> CoresPerTask
          pc,      \* task -> "idle"|"locked"|"acquired"|"running"|"ended"|"done"
          held,    \* task -> tokens deposited and not yet taken back
          mx,      \* owner of the acquisition mutex (0 = free)
          tokens   \* tokens in the channel

vars == <<max, cores, pc, held, mx, tokens>>

RECURSIVE Sum(_, _)
Sum(f, S) == IF S = {} THEN 0 ELSE LET x == CHOOSE y \in S : TRUE IN f[x] + Sum(f, S \ {x})

Init == /\ max \in 1..MaxMax
        /\ cores \in [Tasks -> 1..max]
        /\ Rendezvous => Sum(cores, Tasks) <= max
        /\ pc = [t \in Tasks |-> "idle"]
        /\ held = [t \in Tasks |-> 0]
        /\ mx = 0
        /\ tokens = 0

Need(t) == IF "OneTokenPerTask" \in Weak THEN 1 ELSE cores[t]

Lock(t) ==        \* concurrentTasksMx.Lock()
  /\ pc[t] = "idle" /\ (mx = 0 \/ "NoAcqMutex" \in Weak)
  /\ mx' = t /\ pc' = [pc EXCEPT ![t] = "locked"]
  /\ UNCHANGED <<max, cores, held, tokens>>

Deposit(t) ==     \* concurrentTasks <- struct{}{}   (blocks while the channel is full)
  /\ pc[t] = "locked" /\ held[t] < Need(t) /\ tokens < max
  /\ held' = [held EXCEPT ![t] = @ + 1] /\ tokens' = tokens + 1
  /\ UNCHANGED <<max, cores, pc, mx>>

Unlock(t) ==      \* concurrentTasksMx.Unlock()
  /\ pc[t] = "locked" /\ held[t] = Need(t)
  /\ mx' = (IF mx = t THEN 0 ELSE mx) /\ pc' = [pc EXCEPT ![t] = "acquired"]
  /\ UNCHANGED <<max, cores, held, tokens>>

CmdStart(t) == /\ pc[t] = "acquired" /\ pc' = [pc EXCEPT ![t] = "running"]
               /\ UNCHANGED <<max, cores, held, mx, tokens>>

CmdEnd(t) ==   /\ pc[t] = "running"
               /\ Rendezvous => \A u \in Tasks : pc[u] \in {"running", "ended", "done"}
               /\ pc' = [pc EXCEPT ![t] = "ended"]
               /\ UNCHANGED <<max, cores, held, mx, tokens>>

ReleaseOne(t) ==  \* <-concurrentTasks   (no lock)
  /\ pc[t] = "ended" \/ ("ReleaseBeforeEnd" \in Weak /\ pc[t] = "running")
  /\ held[t] > 0
  /\ "LockedRelease" \in Weak => (mx = 0 \/ mx = t)     \* weakened: release needs the acquisition mutex
  /\ held' = [held EXCEPT ![t] = @ - 1] /\ tokens' = tokens - 1
  /\ UNCHANGED <<max, cores, pc, mx>>

Finish(t) == /\ pc[t] = "ended" /\ held[t] = 0 /\ pc' = [pc EXCEPT ![t] = "done"]
             /\ UNCHANGED <<max, cores, held, mx, tokens>>

AllDone == \A t \in Tasks : pc[t] = "done"

Next == \/ \E t \in Tasks : Lock(t) \/ Deposit(t) \/ Unlock(t) \/ CmdStart(t) \/ CmdEnd(t) \/ ReleaseOne(t) \/ Finish(t)
        \/ (AllDone /\ UNCHANGED vars)

Spec == Init /\ [][Next]_vars /\ WF_vars(Next)

(************************ properties ***************************************)
RunningSet == {t \in Tasks : pc[t] = "running"}
TypeOK == /\ tokens \in 0..max /\ \A t \in Tasks : held[t] \in 0..cores[t]
\* C06: the commands executing at any instant never need more slots than exist
C06_Bound == Sum(cores, RunningSet) <= max
\* supporting inductive facts
C06_TokensAreHeld == tokens = Sum(held, Tasks)
C06_RunningHoldsAll == \A t \in RunningSet : held[t] = cores[t]
C06_IdleHoldsNone == \A t \in Tasks : pc[t] \in {"idle", "done"} => held[t] = 0
C07_MutexExclusive == Cardinality({t \in Tasks : pc[t] = "locked"}) <= 1
\* C07: tasks waiting for slots always eventually run (and finish); with Rendezvous = TRUE this says that
\* k tasks that fit together really execute simultaneously (nobody ends before all run)
C07_Progress == <>AllDone
C07_EachRuns == \A t \in Tasks : <>(pc[t] = "running")
=============================================================================
