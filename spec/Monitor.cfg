SPECIFICATION MSpec
CONSTRAINT HW
POSTCONDITION Accepted
CHECK_DEADLOCK FALSE
INVARIANTS M_C04_Once M_C04_OnlyExpected M_C04_AtReturn M_C05_NoEarly M_C05_NoLateWork M_C06_Bound M_C08_Order M_C08_PerUpstream M_C09_NotPublished M_C09_NoSilent M_C09_EndStatus M_C02_NoReexec M_C16_Closure
