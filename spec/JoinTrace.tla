----------------------------- MODULE JoinTrace -----------------------------
(* Monitor over recorded events of a real join workflow: what upstream sent to the sub-stream port,
   what NewTask drained (ct.sub), the task that was formed (task.new with its member list and command). *)
EXTENDS Integers, Sequences, FiniteSets, TLC, Json, SequencesExt
Trace == ndJsonDeserialize("trace.ndjson")
VARIABLES l, sent, drained, formed, sep
jv == <<l, sent, drained, formed, sep>>
Ev == Trace[l]
Push(f, k, x) == IF k \in DOMAIN f THEN [f EXCEPT ![k] = Append(@, x)] ELSE (k :> <<x>>) @@ f
JInit == l = 1 /\ sent = <<>> /\ drained = <<>> /\ formed = <<>> /\ sep = ""
Step == /\ l <= Len(Trace) /\ l' = l + 1
        /\ CASE Ev.e = "header" -> sent' = <<>> /\ drained' = <<>> /\ formed' = <<>> /\ sep' = Ev.sep
             [] Ev.e = "sub.send" -> sent' = Push(sent, Ev.from, Ev.item) /\ UNCHANGED <<drained, formed, sep>>
             [] Ev.e = "sub.drain" -> drained' = Append(drained, Ev.item) /\ UNCHANGED <<sent, formed, sep>>
             [] Ev.e = "join.task" -> formed' = Append(formed, [members |-> Ev.members, argv |-> Ev.argv, upstream |-> Ev.upstream, execs |-> Ev.execs])
                                      /\ UNCHANGED <<sent, drained, sep>>
             [] OTHER -> UNCHANGED <<sent, drained, formed, sep>>
JSpec == JInit /\ [][Step]_jv
IsPrefixOf(a, b) == Len(a) <= Len(b) /\ SubSeq(b, 1, Len(a)) = a
AllSent == UNION {ToSet(sent[k]) : k \in DOMAIN sent}
\* arrival order per upstream, nothing twice
J_C18_Order == \A k \in DOMAIN sent : IsPrefixOf(SelectSeq(drained, LAMBDA x : x \in ToSet(sent[k])), sent[k])
J_C18_Once == \A i, j \in DOMAIN drained : i # j => drained[i] # drained[j]
\* the task formed has the whole sub-stream, in drain order, in its command, and as upstream records; it ran once
J_C18_Task == \A i \in DOMAIN formed :
                 /\ formed[i].members = drained
                 /\ ToSet(drained) = AllSent
                 /\ formed[i].argv = drained
                 /\ ToSet(formed[i].upstream) = ToSet(drained)
                 /\ formed[i].execs = 1
J_C18_OneTask == Len(formed) <= 1
ASSUME TLCSet(1, 0)
HW == IF l > TLCGet(1) THEN TLCSet(1, l) ELSE TRUE
Accepted == TLCGet(1) = Len(Trace) + 1
=============================================================================
