CONSTANT Closed = TRUE
CONSTANT Weak = {}
SPECIFICATION Spec
INVARIANTS TypeOK C04_Once C04_Prefix C04_AtReturn C04_Tasks C05_NoEarly C06_Bound C08_Order C09_FailStops C09_NoSilent C02_NoReexec C16_Closure C17_NoFile C17_NoFifoLeft C17_Rendezvous C18_Whole
PROPERTY C05_Live
