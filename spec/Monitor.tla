------------------------------ MODULE Monitor ------------------------------
(***************************************************************************)
(* Property monitors over the stable observable events of a recorded run.  *)
(* Unlike FlowTrace (which rejects anything Flow's actions do not allow),  *)
(* this acceptor consumes EVERY event unconditionally and only updates     *)
(* history variables; the listed properties are invariants over them.  It  *)
(* therefore still decides the properties on executions whose shape the    *)
(* detailed acceptor no longer recognises (refactored or mutated code).    *)
(* It knows nothing about channels, locks or task internals.               *)
(***************************************************************************)
EXTENDS Integers, Sequences, FiniteSets, TLC, Json, SequencesExt

Inst  == JsonDeserialize("inst.json")
Exp   == JsonDeserialize("expected.json")    \* exported by TLC from Flow!ExpectedJson
Trace == ndJsonDeserialize("trace.ndjson")

MaxSlots == Inst.max
ProcRecs == ToSet(Inst.procs)
PRTab    == [n \in {p.name : p \in ProcRecs} |-> CHOOSE p \in ProcRecs : p.name = n]
Cores(n) == PRTab[n].cores
ExpTasks == ToSet(Exp.tasks)
ExpKeys  == {t.key : t \in ExpTasks}
ExpTask(k) == CHOOSE t \in ExpTasks : t.key = k
OutsOfKey(k) == ToSet(ExpTask(k).outs)
Pre      == ToSet(Inst.pre)
Faults   == Inst.faults

VARIABLES
  l,         \* next trace line
  created,   \* proc -> sequence of [key, outs] in task.new order
  sent,      \* <<from, to>> -> sequence of items (send.begin order)
  got,       \* in-port -> sequence of items received (ct.recv / sink.recv order)
  execs,     \* task key -> number of cmd.start
  running,   \* set of <<proc, key>> between cmd.start and cmd.end
  pub,       \* ids published (exec.fin) in this run
  donekeys,  \* task keys whose Done was taken by the Run loop
  exited,    \* processes whose Run loop ended
  started,   \* processes whose Run loop started
  failedkeys,\* keys of tasks on whose goroutine Fail was called
  late,      \* task keys created / started / published after Run had returned
  st         \* "init" | "running" | "returned" | "failed" | "ended"

mvars == <<l, created, sent, got, execs, running, pub, donekeys, exited, started, failedkeys, late, st>>

Ev == Trace[l]
Is(e) == l <= Len(Trace) /\ Ev.e = e
Bump(f, k) == IF k \in DOMAIN f THEN [f EXCEPT ![k] = @ + 1] ELSE (k :> 1) @@ f
Push(f, k, x) == IF k \in DOMAIN f THEN [f EXCEPT ![k] = Append(@, x)] ELSE (k :> <<x>>) @@ f
Get(f, k) == IF k \in DOMAIN f THEN f[k] ELSE <<>>

Reset == /\ created' = <<>> /\ sent' = <<>> /\ got' = <<>> /\ execs' = <<>> /\ running' = {}
         /\ pub' = {} /\ donekeys' = {} /\ exited' = {} /\ started' = {} /\ failedkeys' = {}
         /\ st' = "init"

MInit == l = 1 /\ created = <<>> /\ sent = <<>> /\ got = <<>> /\ execs = <<>> /\ running = {}
         /\ pub = {} /\ donekeys = {} /\ exited = {} /\ started = {} /\ failedkeys = {} /\ late = {} /\ st = "init"

Step ==
  /\ l <= Len(Trace)
  /\ l' = l + 1
  /\ late' = IF Ev.e = "header" THEN {}
             ELSE IF st = "returned" /\ Ev.e \in {"task.new", "cmd.start", "publish"} THEN late \cup {Ev.key} ELSE late
  /\ CASE Ev.e = "header" -> Reset
       [] Ev.e = "run.start" -> st' = "running" /\ UNCHANGED <<created, sent, got, execs, running, pub, donekeys, exited, started, failedkeys>>
       [] Ev.e = "proc.start" -> started' = started \cup {Ev.proc} /\ UNCHANGED <<created, sent, got, execs, running, pub, donekeys, exited, failedkeys, st>>
       [] Ev.e = "task.new" -> created' = Push(created, Ev.proc, [key |-> Ev.key, outs |-> Ev.outs])
                               /\ UNCHANGED <<sent, got, execs, running, pub, donekeys, exited, started, failedkeys, st>>
       [] Ev.e = "send.begin" -> sent' = Push(sent, <<Ev.from, Ev.to>>, Ev.item)
                               /\ UNCHANGED <<created, got, execs, running, pub, donekeys, exited, started, failedkeys, st>>
       [] Ev.e \in {"ct.recv", "sink.recv"} ->
            /\ got' = IF Ev.e = "ct.recv" /\ Ev.closed THEN got ELSE Push(got, Ev.port, Ev.item)
            /\ UNCHANGED <<created, sent, execs, running, pub, donekeys, exited, started, failedkeys, st>>
       [] Ev.e = "cmd.start" -> execs' = Bump(execs, Ev.key) /\ running' = running \cup {<<Ev.proc, Ev.key>>}
                               /\ UNCHANGED <<created, sent, got, pub, donekeys, exited, started, failedkeys, st>>
       [] Ev.e = "cmd.end" -> running' = running \ {<<Ev.proc, Ev.key>>}
                               /\ UNCHANGED <<created, sent, got, execs, pub, donekeys, exited, started, failedkeys, st>>
       [] Ev.e = "publish" -> pub' = pub \cup (IF Ev.key \in ExpKeys THEN OutsOfKey(Ev.key) ELSE {})
                               /\ UNCHANGED <<created, sent, got, execs, running, donekeys, exited, started, failedkeys, st>>
       [] Ev.e = "done.recv" -> donekeys' = donekeys \cup {Ev.key}
                               /\ UNCHANGED <<created, sent, got, execs, running, pub, exited, started, failedkeys, st>>
       [] Ev.e = "proc.exit" -> exited' = exited \cup {Ev.proc}
                               /\ UNCHANGED <<created, sent, got, execs, running, pub, donekeys, started, failedkeys, st>>
       [] Ev.e = "fail" -> st' = "failed" /\ failedkeys' = failedkeys \cup {Ev.key}
                               /\ UNCHANGED <<created, sent, got, execs, running, pub, donekeys, exited, started>>
       [] Ev.e = "run.return" -> st' = (IF st = "failed" THEN st ELSE "returned")
                               /\ UNCHANGED <<created, sent, got, execs, running, pub, donekeys, exited, started, failedkeys>>
       [] Ev.e = "end" -> st' = "ended" /\ UNCHANGED <<created, sent, got, execs, running, pub, donekeys, exited, started, failedkeys>>
       [] OTHER -> UNCHANGED <<created, sent, got, execs, running, pub, donekeys, exited, started, failedkeys, st>>

MSpec == MInit /\ [][Step]_mvars

(************************ properties over the observed history ************)
AllCreated == UNION {{created[p][i].key : i \in DOMAIN created[p]} : p \in DOMAIN created}
RECURSIVE SumCores(_)
SumCores(S) == IF S = {} THEN 0 ELSE LET x == CHOOSE y \in S : TRUE IN Cores(x[1]) + SumCores(S \ {x})

\* C04: no command twice; nothing executes that is not an expected task; nothing received
\* on a port that was not sent to it, per sender in order
M_C04_Once == \A k \in DOMAIN execs : execs[k] <= 1
\* (for merge-sensitive graphs - a process with several ports receives a merged stream - the pairing of items across
\*  ports legitimately depends on the merge order: only counts are compared there; restriction of this oracle)
MI == Exp.mergeinsensitive
M_C04_OnlyExpected == MI => \A k \in DOMAIN execs : k \in ExpKeys
M_C04_AtReturn == st = "returned" =>
     /\ MI => DOMAIN execs = ToSet(Exp.execkeys)
     /\ MI => AllCreated = ExpKeys
     /\ Cardinality(AllCreated) = Cardinality(ExpKeys)

\* C05: at return every created task is done, every started process has exited, nothing runs
M_C05_NoEarly == st = "returned" =>
     /\ running = {}
     /\ AllCreated \subseteq donekeys
     /\ started \subseteq exited

\* C05: nothing is created, executed or published after Run has returned
M_C05_NoLateWork == late = {}

\* C06: the commands logged as executing never need more slots than exist
M_C06_Bound == SumCores(running) <= MaxSlots

\* C08: on every connection of a process out-port the items leave in task-creation order
OutPortOf(p, o) == p \o "." \o o
M_C08_Order == \A p \in DOMAIN created : \A c \in DOMAIN sent :
     \A o \in (IF created[p] = <<>> THEN {} ELSE DOMAIN created[p][1].outs) :
        c[1] = OutPortOf(p, o) =>
           \A i \in DOMAIN sent[c] : i <= Len(created[p]) /\ sent[c][i] = created[p][i].outs[o]

\* C08/C04: what a port receives from one upstream is a prefix of what that upstream sent to it,
\* in the same order (item ids are unique per connection in the generated instances)
IsPrefixOf(a, b) == Len(a) <= Len(b) /\ SubSeq(b, 1, Len(a)) = a
M_C08_PerUpstream == \A c \in DOMAIN sent :
     IsPrefixOf(SelectSeq(Get(got, c[2]), LAMBDA x : x \in ToSet(sent[c])), sent[c])

\* C09: the failing task's outputs are never published; completion is never reported
M_C09_NotPublished == \A k \in failedkeys : k \in ExpKeys => OutsOfKey(k) \cap pub = {}
M_C09_NoSilent == (\E k \in DOMAIN execs : k \in DOMAIN Faults) => st # "returned"
M_C09_EndStatus == (st = "ended" /\ l > 1 /\ Trace[l-1].e = "end") =>
     LET e == Trace[l-1] IN
       /\ (\E k \in DOMAIN execs : k \in DOMAIN Faults) => (e.exit # 0 /\ ~e.completed)
       /\ e.completed => e.exit = 0

\* C02: tasks whose outputs pre-exist never execute
M_C02_NoReexec == MI => \A k \in DOMAIN execs : k \in ExpKeys => OutsOfKey(k) \cap Pre = {}

\* C16: only processes of the run set execute anything
M_C16_Closure == MI => \A k \in DOMAIN execs : k \in ExpKeys /\ ExpTask(k).proc \in ToSet(Exp.runset)

ASSUME TLCSet(1, 0)
HW == IF l > TLCGet(1) THEN TLCSet(1, l) ELSE TRUE
Accepted == TLCGet(1) = Len(Trace) + 1
=============================================================================
