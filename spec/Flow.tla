------------------------------- MODULE Flow -------------------------------
(***************************************************************************)
(* The scipipe dataflow runtime: processes as goroutines connected by      *)
(* bounded channels, createTasks / Run loop / task goroutines, the slot    *)
(* counter (atomic at this grain; token-by-token in Slots.tla), sources,   *)
(* parameter feeders, the sink and the driver.  One action per hook point  *)
(* of the implementation (DESIGN.md Appendix A).                           *)
(*                                                                         *)
(* The instance is read from inst.json (same wfspec the Go driver runs).   *)
(* Closed = TRUE  : closed model - channel capacity, strict FIFO receive,  *)
(*                  slot guard; sends are atomic.  Model-checked by TLC.   *)
(* Closed = FALSE : acceptor mode used by FlowTrace.tla - a send is a      *)
(*                  begin/done pair, a receive takes the oldest in-flight  *)
(*                  item of *some* sender (log order of send.begin is not  *)
(*                  the enqueue order), guards the Go runtime enforces are *)
(*                  taken as given.                                        *)
(***************************************************************************)
EXTENDS Integers, Sequences, FiniteSets, TLC, Json, SequencesExt

CONSTANTS Closed,
          Weak     \* set of weakening flags ({} = faithful model); each flag switches one mechanism of
                   \* the implementation off, TLC must then find a counter-example (vacuity test of the
                   \* invariants, source of replay scenarios): "AnyDoneOrder", "CloseBeforeDrain",
                   \* "SpawnAllThenWait", "SendFirstRemoteOnly", "NoSkipCheck", "SinkOnlyIfDriver" (= F1), "NoDrain" (= F12), "NoWaitAll" (= F16),
                   \* "StreamAtDone" (streaming IPs sent like ordinary ones, after the task), "NoFifoRemove",
                   \* "SplitDropLast" (a FileSplitter that does not emit the trailing part of each file),
                   \* "SubNoDrain" (a task with a joined in-port is built without waiting for the end of the sub-stream),
                   \* "SinkFileFirst" (the sink drains its file port to the end before its parameter port), "SeqDrain" (abandoned
                   \* in-ports drained one after the other), "CombSendSeq" (a combinator sends its out-ports one after the other)

Inst == JsonDeserialize("inst.json")

MaxSlots == Inst.max
BufSize == Inst.bufsize

ProcRecs  == ToSet(Inst.procs)
PNames    == {p.name : p \in ProcRecs}
PRTab     == [n \in PNames |-> CHOOSE p \in ProcRecs : p.name = n]
PR(n)     == PRTab[n]
IsCmd(n)  == PR(n).kind \in {"cmd", "gofunc", "gofunc_ipwrite"}
FileEdges  == ToSet(Inst.edges)      \* [from, to, fp, tp]
ParamEdges == ToSet(Inst.pedges)
AllEdges   == FileEdges \cup ParamEdges
Feeds      == ToSet(Inst.feeds)      \* [to, tp, values]
Pre        == ToSet(Inst.pre)        \* ids of output files present before the run
Faults     == Inst.faults            \* task key "proc:sig" -> fault kind
FaultOf(k) == IF k \in DOMAIN Faults THEN Faults[k] ELSE "none"
CmdFaults  == {"exit_before_write", "exit_after_partial", "exit_after_all", "sigkill_self", "sigterm_self", "sigint_self", "sigkill_shell", "sigkill_after_all", "exit_after_all_noisy"}

PortId(n, port) == n \o "." \o port
SeqPorts(n, s)  == {PortId(n, s[i]) : i \in DOMAIN s}
\* combinators: ParamCombinator ("pcomb", param ports) with two or more ports and FileCombinator ("fcomb", file ports):
\* drain every in-port completely, one after the other, then emit the aligned Cartesian product, one goroutine per out-port
IsComb(n)     == (PR(n).kind = "pcomb" /\ Len(PR(n).params) >= 2) \/ PR(n).kind = "fcomb"
CombNames(n)  == IF PR(n).kind = "fcomb" THEN PR(n).ins ELSE PR(n).params
IsCat(n)      == PR(n).kind = "concat"
     \* "concat" (Concatenator): collects its whole in-port (writing the items into one file), then emits that ONE file, PR(n).item
IsRelay(n)    == (PR(n).kind = "pcomb" /\ ~IsComb(n)) \/ PR(n).kind \in {"maptotags", "splitter"} \/ IsCat(n)
     \* "pcomb" with one port: collects its whole input, then emits it;
     \* "maptotags": pass-through component - forwards every item as it arrives (ports in / out)
IsSplit(n)    == PR(n).kind = "splitter"
     \* "splitter" (FileSplitter, ports file / split_file): forwards PR(n).nparts parts "<item>.txt.split_<k>" for every item as it arrives
IsPass(n)     == PR(n).kind = "maptotags" \/ IsSplit(n)
SplitParts(sq, K) == FlattenSeq([i \in DOMAIN sq |-> [k \in 1..K |-> sq[i] \o ".txt.split_" \o ToString(k)]])
\* "substream" (StreamToSubStream): emits ONE carrier item at once; the files arriving on its in-port are read by whoever receives
\* the carrier on a joined in-port ({i:x|join:SEP}): NewTask drains that channel until it is closed.
IsSub(n)      == PR(n).kind = "substream"
Carrier(n)    == "carrier:" \o n
InPortsTab    == [n \in PNames |-> IF IsCmd(n) \/ PR(n).kind = "fcomb" THEN SeqPorts(n, PR(n).ins) ELSE IF IsSplit(n) THEN {PortId(n, "file")} ELSE IF IsPass(n) \/ IsSub(n) \/ IsCat(n) THEN {PortId(n, "in")} ELSE {}]
JoinPortsTab  == [n \in PNames |-> IF IsCmd(n) THEN SeqPorts(n, PR(n).joinports) ELSE {}]
JoinPortsOf(n) == JoinPortsTab[n]
ParamPortsTab == [n \in PNames |-> IF IsCmd(n) \/ PR(n).kind = "pcomb" THEN SeqPorts(n, PR(n).params) ELSE {}]
FileOutsTab   == [n \in PNames |-> IF IsCmd(n) THEN SeqPorts(n, PR(n).outs)
                                   ELSE IF IsSplit(n) THEN {PortId(n, "split_file")}
                                   ELSE IF PR(n).kind = "src" \/ IsPass(n) \/ IsCat(n) THEN {PortId(n, "out")}
                                   ELSE IF IsSub(n) THEN {PortId(n, "substream")}
                                   ELSE IF PR(n).kind = "fcomb" THEN {PortId(n, PR(n).ins[i]) \o ">" : i \in DOMAIN PR(n).ins} ELSE {}]
ParamOutsTab  == [n \in PNames |-> IF PR(n).kind = "psrc" THEN {PortId(n, "out")}
                                   ELSE IF PR(n).kind = "pcomb" THEN {PortId(n, PR(n).params[i]) \o ">" : i \in DOMAIN PR(n).params} ELSE {}]
\* out-ports declared as streaming ({os:..}): the IP is handed over when the task is taken, the bytes go through a FIFO
StreamOutsTab == [n \in PNames |-> IF IsCmd(n) THEN SeqPorts(n, PR(n).streams) ELSE {}]
StreamOutsOf(n) == StreamOutsTab[n]
InPortsOf(n)    == InPortsTab[n]
ParamPortsOf(n) == ParamPortsTab[n]
FileOutsOf(n)   == FileOutsTab[n]
ParamOutsOf(n)  == ParamOutsTab[n]
OutsOf(n)       == FileOutsOf(n) \cup ParamOutsOf(n)

(************************ wiring (static) *********************************)
Up1(n) == {e.fp : e \in {x \in AllEdges : x.tp = n}}
RECURSIVE ClosureOf(_)
ClosureOf(S) == LET T == S \cup UNION {Up1(n) : n \in S}
                IN  IF T = S THEN S ELSE ClosureOf(T)
RunSet == IF Inst.mode = "run" THEN PNames ELSE ClosureOf(ToSet(Inst.targets))

SinkIn  == Inst.name \o "_default_sink.sink_in"
PSinkIn == Inst.name \o "_default_sink.param_sink_in"

StaticOuts  == UNION {OutsOf(n) : n \in PNames}
OwnerTab    == [op \in StaticOuts |-> CHOOSE n \in PNames : op \in OutsOf(n)]
Owner(op)   == OwnerTab[op]
IsParamOut(op) == \E n \in PNames : op \in ParamOutsOf(n)
RemotesTab ==         \* after reconnectDeadEndConnections
  [op \in StaticOuts |->
     LET rs == {e.to : e \in {x \in AllEdges : x.from = op /\ x.tp \in RunSet}}
     IN  IF rs # {} THEN rs ELSE IF IsParamOut(op) THEN {PSinkIn} ELSE {SinkIn}]
RemotesOf(op) == RemotesTab[op]

FeedOut(f)  == f.to \o "<feed"
FeedId(f)   == "feed>" \o f.to

Leaves == {n \in RunSet : IsCmd(n) /\ OutsOf(n) = {}}
Driver == IF Leaves = {} THEN "SINK" ELSE CHOOSE n \in Leaves : TRUE
UpsOfPort(port) == {e.from : e \in {x \in AllEdges : x.to = port /\ x.fp \in RunSet}}
                   \cup {FeedOut(f) : f \in {x \in Feeds : x.to = port}}
ConsumerPorts == UNION {InPortsOf(n) \cup ParamPortsOf(n) : n \in RunSet}
Relays == {n \in RunSet : IsRelay(n)}
CatFiles == {PR(n).item : n \in {m \in RunSet : IsCat(m)}}       \* written by the component itself, created as soon as it runs
Unwired == \E port \in ConsumerPorts :
              {e \in AllEdges : e.to = port} = {} /\ {f \in Feeds : f.to = port} = {}
WiringFails == Cardinality(Leaves) > 1 \/ Unwired \/ RunSet = {}

SinkUps  == {op \in UNION {FileOutsOf(n)  : n \in RunSet} : RemotesOf(op) = {SinkIn}}
PSinkUps == {op \in UNION {ParamOutsOf(n) : n \in RunSet} : RemotesOf(op) = {PSinkIn}}

AllInPorts == ConsumerPorts \cup {SinkIn, PSinkIn}
              \cup {f.to : f \in Feeds}   \* feeders of processes outside the run set still send
InitUpsTab == [port \in AllInPorts |->
                 IF port = SinkIn THEN SinkUps ELSE IF port = PSinkIn THEN PSinkUps
                 ELSE {e.from : e \in {x \in AllEdges : x.to = port}}
                      \cup {FeedOut(f) : f \in {x \in Feeds : x.to = port}}]
InitUps(port) == InitUpsTab[port]

Emitters  == {n \in RunSet : ~IsCmd(n)}
FeedIds   == {FeedId(f) : f \in Feeds}
FeedOf(id) == CHOOSE f \in Feeds : FeedId(f) = id
Combs     == {n \in RunSet : IsComb(n)}
SubId(n, p) == n \o "/" \o p          \* the sending goroutine of combinator n for port p
SubIds    == UNION {{SubId(n, CombNames(n)[i]) : i \in DOMAIN CombNames(n)} : n \in Combs}
SubOwnerTab == [e \in SubIds |-> CHOOSE n \in Combs : \E i \in DOMAIN CombNames(n) : SubId(n, CombNames(n)[i]) = e]
SubPortTab  == [e \in SubIds |-> CHOOSE p \in ToSet(CombNames(SubOwnerTab[e])) : SubId(SubOwnerTab[e], p) = e]
SubsOf(n) == {e \in SubIds : SubOwnerTab[e] = n}
EmIds     == Emitters \cup FeedIds \cup SubIds
EmItemsTab == [e \in EmIds |-> IF e \in FeedIds THEN FeedOf(e).values
                               ELSE IF e \in SubIds THEN <<>>
                               ELSE IF IsSub(e) THEN <<Carrier(e)>>
                               ELSE IF PR(e).kind = "src" THEN PR(e).items ELSE PR(e).values]
EmOutTab   == [e \in EmIds |-> IF e \in FeedIds THEN FeedOut(FeedOf(e))
                               ELSE IF e \in SubIds THEN PortId(SubOwnerTab[e], SubPortTab[e]) \o ">"
                               ELSE IF IsComb(e) THEN PortId(e, CombNames(e)[1]) \o ">"
                               ELSE IF IsSub(e) THEN PortId(e, "substream")
                               ELSE IF IsSplit(e) THEN PortId(e, "split_file")
                               ELSE IF PR(e).kind = "pcomb" THEN PortId(e, PR(e).params[1]) \o ">" ELSE PortId(e, "out")]
RelayIn(e) == IF IsSplit(e) THEN PortId(e, "file") ELSE IF IsPass(e) \/ IsCat(e) THEN PortId(e, "in") ELSE PortId(e, PR(e).params[1])
EmRemotesTab == [e \in EmIds |-> IF e \in FeedIds THEN {FeedOf(e).to} ELSE RemotesOf(EmOutTab[e])]
EmOut(e)   == EmOutTab[e]
EmRemotes(e) == EmRemotesTab[e]
CmdRun    == {n \in RunSet : IsCmd(n)}

(************************ naming (shared with the Go driver) **************)
RECURSIVE JoinSeq(_, _)
JoinSeq(s, sep) == IF s = <<>> THEN "" ELSE IF Len(s) = 1 THEN s[1]
                   ELSE s[1] \o sep \o JoinSeq(Tail(s), sep)
\* ins / params: sequences of values in the (sorted) port order of the instance
Sig(ins, params) == JoinSeq(ins, "-") \o (IF params = <<>> THEN "" ELSE "_" \o JoinSeq(params, "-"))
TaskKey(n, ins, params) == n \o ":" \o Sig(ins, params)
OutItem(n, port, ins, params) == PortId(n, port) \o "_" \o Sig(ins, params)

(************************ declarative reference evaluation ****************)
RECURSIVE OutStream(_)
EdgesInto(port) == SelectSeq(Inst.edges \o Inst.pedges, LAMBDA e : e.to = port /\ e.fp \in RunSet)
FeedsInto(port) == SelectSeq(Inst.feeds, LAMBDA f : f.to = port)
InStream(port) ==     \* canonical merge order: edge order of the instance, then feeds
  FlattenSeq([i \in DOMAIN EdgesInto(port) |-> OutStream(EdgesInto(port)[i].from)])
  \o FlattenSeq([i \in DOMAIN FeedsInto(port) |-> FeedsInto(port)[i].values])
MinLen(S) == IF S = {} THEN 1 ELSE CHOOSE m \in S : \A k \in S : m <= k
NSets0(n) == MinLen({Len(InStream(PortId(n, PR(n).ins[i]))) : i \in DOMAIN PR(n).ins}
                   \cup {Len(InStream(PortId(n, PR(n).params[i]))) : i \in DOMAIN PR(n).params})
NSetsTab == [n \in {m \in RunSet : IsCmd(m)} |-> NSets0(n)]
NSets(n) == NSetsTab[n]
PlainIns(n)     == SelectSeq(PR(n).ins, LAMBDA x : PortId(n, x) \notin JoinPortsOf(n))      \* joined ports do not enter the task's name
ExpIns(n, k)    == [i \in DOMAIN PlainIns(n) |-> InStream(PortId(n, PlainIns(n)[i]))[k]]
SubOfCarrier(c) == CHOOSE m \in PNames : IsSub(m) /\ Carrier(m) = c
ExpSubs(n, k)   == [jp \in JoinPortsOf(n) |-> InStream(PortId(SubOfCarrier(InStream(jp)[k]), "in"))]
ExpParams(n, k) == [i \in DOMAIN PR(n).params |-> InStream(PortId(n, PR(n).params[i]))[k]]
\* the aligned Cartesian product: the stream of the j-th key, each element repeated (product of the later lengths) times,
\* the whole tiled (product of the earlier lengths) times - combine() of the components, in closed form
RECURSIVE ProdSeq(_)
ProdSeq(ls) == IF ls = <<>> THEN 1 ELSE ls[1] * ProdSeq(Tail(ls))
RepEach(sq, k) == FlattenSeq([i \in DOMAIN sq |-> [j \in 1..k |-> sq[i]]])
Tile(sq, k)    == FlattenSeq([j \in 1..k |-> sq])
ProductStream(streams, j) ==      \* streams: sequence of the input streams in key order
  LET lens == [i \in DOMAIN streams |-> Len(streams[i])]
  IN  Tile(RepEach(streams[j], ProdSeq(SubSeq(lens, j + 1, Len(lens)))), ProdSeq(SubSeq(lens, 1, j - 1)))
CombIdx(n, op) == CHOOSE i \in DOMAIN CombNames(n) : PortId(n, CombNames(n)[i]) \o ">" = op
OutStream(op) ==
  LET n == Owner(op) IN
  IF IsComb(n) THEN ProductStream([i \in DOMAIN CombNames(n) |-> InStream(PortId(n, CombNames(n)[i]))], CombIdx(n, op))   \* canonical key order
  ELSE IF IsCat(n) THEN <<PR(n).item>>
  ELSE IF IsSplit(n) THEN SplitParts(InStream(RelayIn(n)), PR(n).nparts)
  ELSE IF IsRelay(n) THEN InStream(RelayIn(n))
  ELSE IF IsSub(n) THEN <<Carrier(n)>>
  ELSE IF ~IsCmd(n) THEN (IF PR(n).kind = "src" THEN PR(n).items ELSE PR(n).values)
  ELSE LET port == CHOOSE o \in ToSet(PR(n).outs) : PortId(n, o) = op
       IN  [k \in 1..NSets(n) |-> OutItem(n, port, ExpIns(n, k), ExpParams(n, k))]

ExpTasks == UNION {{[proc |-> n, k |-> k, key |-> TaskKey(n, ExpIns(n, k), ExpParams(n, k)),
                     ins |-> ExpIns(n, k), params |-> ExpParams(n, k), subs |-> ExpSubs(n, k),
                     outs |-> {OutItem(n, PR(n).outs[j], ExpIns(n, k), ExpParams(n, k)) :
                                 j \in {i \in DOMAIN PR(n).outs : PortId(n, PR(n).outs[i]) \notin StreamOutsOf(n)}},
                     streams |-> {OutItem(n, PR(n).outs[j], ExpIns(n, k), ExpParams(n, k)) :
                                 j \in {i \in DOMAIN PR(n).outs : PortId(n, PR(n).outs[i]) \in StreamOutsOf(n)}}]
                    : k \in 1..NSets(n)} : n \in CmdRun}
ExpFiles == UNION {t.outs : t \in ExpTasks}
ExpExecKeys == {t.key : t \in {x \in ExpTasks : x.outs \cap Pre = {}}}

\* A stream is ordered if no port on any path from its sources merges several upstreams.
RECURSIVE OrdOut(_)
OrdIn(port) == Cardinality(UpsOfPort(port)) = 1 /\
               (\A e \in {x \in AllEdges : x.to = port /\ x.fp \in RunSet} : OrdOut(e.from))
OrdOut(op) == LET n == Owner(op) IN
              IF IsComb(n) THEN FALSE        \* the order of the product depends on the (random) key order of the component
              ELSE (~IsCmd(n) /\ ~IsRelay(n)) \/ IsCat(n) \/ \A port \in InPortsOf(n) \cup ParamPortsOf(n) : OrdIn(port)
\* every port of n is fed by exactly one out-port of one and the same combinator: the tuples stay aligned, their SET is order-independent
AlignedComb(n) == \E c \in Combs : \A port \in InPortsOf(n) \cup ParamPortsOf(n) :
                     Cardinality(UpsOfPort(port)) = 1 /\ UpsOfPort(port) \subseteq OutsOf(c)
\* The set of files is a function of the graph alone when every process with more
\* than one port receives ordered streams only (restriction of this oracle).
MergeInsensitive == \A n \in CmdRun :
   Cardinality(InPortsOf(n) \cup ParamPortsOf(n)) <= 1
   \/ \A port \in InPortsOf(n) \cup ParamPortsOf(n) : OrdIn(port)
   \/ AlignedComb(n)

\* exported to the harness: the oracle for what a real run of this instance must produce
ExpectedJson == ToJson([tasks |-> ExpTasks, files |-> ExpFiles, catfiles |-> CatFiles, execkeys |-> ExpExecKeys,
                        mergeinsensitive |-> MergeInsensitive, wiringfails |-> WiringFails,
                        runset |-> RunSet, driver |-> Driver])
ASSUME PrintT("EXPECTED " \o ExpectedJson)

(************************ state *******************************************)
VARIABLES
  phase,     \* "init" | "running" | "returned" | "failed"
  q,         \* in-port -> sequence of <<from, item>> in flight / buffered
  ups,       \* in-port -> set of upstream out-ports not yet closed
  em,        \* emitter -> [i, left, wait, st]   st: "collect" (relays only) | "run" | "closing" | "done"
  relayed,   \* relay -> sequence of values collected so far
  rpc,       \* cmd process -> "idle" | "loop" | "sendout" | "closing" | "done"
  ctpc,      \* cmd process -> createTasks pc: "off"|"recv"|"recvp"|"build"|"offered"|"end"|"closed"
  ctleft,    \* ports still to read in the current iteration
  ctgot,     \* port -> item received in the current iteration
  ctopen,    \* no closed port seen in the current phase of the iteration
  offer,     \* cmd process -> tasks offered on the (unbuffered) task channel, not yet taken
  tasksnil,  \* Run loop has seen the task channel closed
  tk,        \* cmd process -> sequence of created tasks [ins, params] (creation order)
  ts,        \* cmd process -> sequence of task states
  started,   \* cmd process -> FIFO of task numbers handed to goroutines
  sout,      \* cmd process -> [left: set of <<port, remote>> still to send, wait, n]
  cl,        \* process/emitter -> set of <<out-port, remote>> closes still to do
  tokens,    \* slots in use
  final,     \* ids of files at their final paths
  failed,    \* keys of tasks whose failure stopped the workflow
  execs,     \* ghost: task key -> number of command executions
  emitted,   \* ghost: out-port -> sequence of items handed to the port
  recvd,     \* ghost: in-port -> sequence of <<from, item>> received
  csub,      \* cmd process -> [left: joined in-ports whose sub-stream is still to be read, cur: the one being read or "", got: port -> members]
  cb,        \* combinator -> [left: in-ports not yet drained, cur: the port being drained or "", got: port -> items, perm: key order of combine()]
  strm       \* streaming: [fifos: items whose FIFO exists, wopen: items whose producer command has started (writer opened),
             \*             ropen: items whose consumer command has started (reader opened)]  - wopen / ropen only grow

vars == <<phase, q, ups, em, relayed, rpc, ctpc, ctleft, ctgot, ctopen, offer, tasksnil, tk, ts, started,
          sout, cl, tokens, final, failed, execs, emitted, recvd, strm, cb, csub>>

StrmInit == [fifos |-> {}, wopen |-> {}, ropen |-> {}]
CombPorts(n) == {PortId(n, CombNames(n)[i]) : i \in DOMAIN CombNames(n)}
CsubInit == [n \in CmdRun |-> [done |-> {}, cur |-> "", got |-> [jp \in JoinPortsTab[n] |-> <<>>]]]
CbInit == [n \in Combs |-> [left |-> CombPorts(n), cur |-> "", got |-> [port \in CombPorts(n) |-> <<>>], perm |-> <<>>]]
EmInit == [e \in EmIds |-> [i |-> 1, left |-> EmRemotes(e), wait |-> "", eof |-> FALSE,
                            st |-> IF e \in Relays \cup Combs THEN "collect" ELSE IF e \in SubIds THEN "wait" ELSE "run"]]
CombOutItems(n, p) == LET perm == cb[n].perm
                          j == CHOOSE i \in DOMAIN perm : perm[i] = p
                      IN  ProductStream([i \in DOMAIN perm |-> cb[n].got[PortId(n, perm[i])]], j)
EmItems(e) == IF e \in Relays THEN (IF IsCat(e) THEN <<PR(e).item>> ELSE IF IsSplit(e) THEN SplitParts(relayed[e], IF "SplitDropLast" \in Weak THEN PR(e).nparts - 1 ELSE PR(e).nparts) ELSE relayed[e])
              ELSE IF e \in SubIds THEN (IF cb[SubOwnerTab[e]].perm = <<>> THEN <<>> ELSE CombOutItems(SubOwnerTab[e], SubPortTab[e]))
              ELSE EmItemsTab[e]
AllOuts == UNION {OutsOf(n) : n \in RunSet} \cup {EmOut(e) : e \in FeedIds}

Init ==
  /\ phase = IF WiringFails THEN "failed" ELSE "init"
  /\ q = [port \in AllInPorts |-> <<>>]
  /\ ups = [port \in AllInPorts |-> InitUps(port)]
  /\ em = EmInit
  /\ relayed = [e \in Relays |-> <<>>]
  /\ rpc = [n \in CmdRun |-> "idle"]
  /\ ctpc = [n \in CmdRun |-> "off"]
  /\ ctleft = [n \in CmdRun |-> {}]
  /\ ctgot = [n \in CmdRun |-> <<>>]
  /\ ctopen = [n \in CmdRun |-> TRUE]
  /\ offer = [n \in CmdRun |-> <<>>]
  /\ tasksnil = [n \in CmdRun |-> FALSE]
  /\ tk = [n \in CmdRun |-> <<>>]
  /\ ts = [n \in CmdRun |-> <<>>]
  /\ started = [n \in CmdRun |-> <<>>]
  /\ sout = [n \in CmdRun |-> [left |-> {}, wait |-> <<>>, n |-> 0]]
  /\ cl = [x \in CmdRun \cup EmIds |-> {}]
  /\ tokens = 0
  /\ final = Pre
  /\ failed = {}
  /\ execs = <<>>
  /\ emitted = [op \in AllOuts |-> <<>>]
  /\ recvd = [port \in AllInPorts |-> <<>>]
  /\ strm = StrmInit
  /\ cb = CbInit
  /\ csub = CsubInit

(************************ channel primitives ******************************)
\* index i of q[port] may be received: Closed - the head; acceptor - the oldest entry of its sender
Receivable(port, i) ==
  /\ i \in DOMAIN q[port]
  /\ IF Closed THEN i = 1 ELSE \A j \in 1..(i-1) : q[port][j][1] # q[port][i][1]
DropAt(s, i) == SubSeq(s, 1, i-1) \o SubSeq(s, i+1, Len(s))
CanSend(port) == Closed => Len(q[port]) < BufSize
PortClosed(port) == ups[port] = {} /\ q[port] = <<>>
Running == phase = "running"
\* feeders run from construction time on, everything else after StartProcs
Active(e) == IF e \in FeedIds THEN phase \in {"init", "running"} ELSE Running

StartProcs == /\ phase = "init"
              /\ phase' = "running"
              /\ UNCHANGED <<q, ups, em, relayed, rpc, ctpc, ctleft, ctgot, ctopen, offer, tasksnil, tk, ts, started,
                             sout, cl, tokens, final, failed, execs, emitted, recvd, strm, cb, csub>>

(************************ emitters: sources, param sources, feeders *******)
SubsBefore(e) == {x \in SubsOf(SubOwnerTab[e]) : \E i, j \in DOMAIN CombNames(SubOwnerTab[e]) :
                     i < j /\ SubId(SubOwnerTab[e], CombNames(SubOwnerTab[e])[i]) = x /\ SubId(SubOwnerTab[e], CombNames(SubOwnerTab[e])[j]) = e}
EmSendBegin(e, r) ==
  /\ Active(e) /\ em[e].st = "run" /\ em[e].wait = "" /\ em[e].i <= Len(EmItems(e))
  /\ ("CombSendSeq" \in Weak /\ e \in SubIds) => \A x \in SubsBefore(e) : em[x].st = "done"
  /\ r \in em[e].left /\ CanSend(r)
  /\ LET item == EmItems(e)[em[e].i]
         left == em[e].left \ {r}
     IN /\ q' = [q EXCEPT ![r] = Append(@, <<EmOut(e), item>>)]
        /\ emitted' = IF em[e].left = EmRemotes(e)
                      THEN [emitted EXCEPT ![EmOut(e)] = Append(@, item)] ELSE emitted
        /\ em' = IF Closed
                 THEN [em EXCEPT ![e] = IF left = {} THEN [@ EXCEPT !.i = @ + 1, !.left = EmRemotes(e)]
                                                      ELSE [@ EXCEPT !.left = left]]
                 ELSE [em EXCEPT ![e] = [@ EXCEPT !.left = left, !.wait = r]]
  /\ UNCHANGED <<phase, ups, relayed, rpc, ctpc, ctleft, ctgot, ctopen, offer, tasksnil, tk, ts, started, sout, cl,
                 tokens, final, failed, execs, recvd, strm, cb, csub>>

EmSendDone(e, r) ==     \* acceptor mode only
  /\ ~Closed /\ Active(e) /\ em[e].wait = r /\ r # ""
  /\ em' = [em EXCEPT ![e] = IF @.left = {} THEN [@ EXCEPT !.i = @ + 1, !.left = EmRemotes(e), !.wait = ""]
                                            ELSE [@ EXCEPT !.wait = ""]]
  /\ UNCHANGED <<phase, q, ups, relayed, rpc, ctpc, ctleft, ctgot, ctopen, offer, tasksnil, tk, ts, started, sout, cl,
                 tokens, final, failed, execs, emitted, recvd, strm, cb, csub>>

\* a relay (one-port ParamCombinator) receives until its port is closed, then starts emitting
RelayRecv(e, i) ==
  /\ Running /\ e \in Relays
  /\ \/ em[e].st = "collect"
     \/ IsPass(e) /\ em[e].st = "run" /\ em[e].wait = "" /\ em[e].i > Len(EmItems(e)) /\ ~em[e].eof   \* item forwarded: next receive
  /\ LET port == RelayIn(e) IN
     \/ /\ i > 0 /\ Receivable(port, i)
        /\ q' = [q EXCEPT ![port] = DropAt(@, i)]
        /\ recvd' = [recvd EXCEPT ![port] = Append(@, q[port][i])]
        /\ relayed' = [relayed EXCEPT ![e] = Append(@, q[port][i][2])]
        /\ em' = IF IsPass(e) THEN [em EXCEPT ![e].st = "run"] ELSE em
     \/ /\ i = 0 /\ PortClosed(port)
        /\ em' = [em EXCEPT ![e].st = "run", ![e].eof = TRUE]
        /\ UNCHANGED <<q, recvd, relayed>>
  /\ UNCHANGED <<phase, ups, rpc, ctpc, ctleft, ctgot, ctopen, offer, tasksnil, tk, ts, started, sout, cl,
                 tokens, final, failed, execs, emitted, strm, cb, csub>>

EmFinish(e) ==          \* all items sent: deferred CloseAllOutPorts / pop.Close
  /\ e \notin SubIds
  /\ Active(e) /\ em[e].st = "run" /\ em[e].wait = "" /\ em[e].i > Len(EmItems(e))
  /\ e \in Relays => em[e].eof
  /\ em' = [em EXCEPT ![e].st = "closing"]
  /\ cl' = [cl EXCEPT ![e] = {<<EmOut(e), r>> : r \in EmRemotes(e)}]
  /\ UNCHANGED <<phase, q, ups, relayed, rpc, ctpc, ctleft, ctgot, ctopen, offer, tasksnil, tk, ts, started, sout,
                 tokens, final, failed, execs, emitted, recvd, strm, cb, csub>>

\* ---- combinators -------------------------------------------------------------------------------
\* the component ranges over its in-ports (map order = any order) and drains each one until it is closed
CombPick(n, port) ==
  /\ Running /\ em[n].st = "collect" /\ cb[n].cur = "" /\ port \in cb[n].left
  /\ cb' = [cb EXCEPT ![n].cur = port]
  /\ UNCHANGED <<phase, q, ups, em, relayed, rpc, ctpc, ctleft, ctgot, ctopen, offer, tasksnil, tk, ts, started, sout, cl,
                 tokens, final, failed, execs, emitted, recvd, strm, csub>>
CombRecv(n, i) ==
  /\ Running /\ em[n].st = "collect" /\ cb[n].cur # ""
  /\ LET port == cb[n].cur IN
     \/ /\ i > 0 /\ Receivable(port, i)
        /\ q' = [q EXCEPT ![port] = DropAt(@, i)]
        /\ recvd' = [recvd EXCEPT ![port] = Append(@, q[port][i])]
        /\ cb' = [cb EXCEPT ![n].got[port] = Append(@, q[port][i][2])]
     \/ /\ i = 0 /\ PortClosed(port)
        /\ cb' = [cb EXCEPT ![n].cur = "", ![n].left = @ \ {port}]
        /\ UNCHANGED <<q, recvd>>
  /\ UNCHANGED <<phase, ups, em, relayed, rpc, ctpc, ctleft, ctgot, ctopen, offer, tasksnil, tk, ts, started, sout, cl,
                 tokens, final, failed, execs, emitted, strm, csub>>
\* combine(): the key order is the iteration order of a second map (any permutation; the closed model fixes the canonical one,
\* the streams of all permutations have the same lengths and the same aligned tuples)
CombPerms(n) == IF Closed THEN {CombNames(n)} ELSE SetToSeqs(ToSet(CombNames(n)))
CombEmit(n, perm) ==
  /\ Running /\ em[n].st = "collect" /\ cb[n].left = {} /\ cb[n].cur = "" /\ perm \in CombPerms(n)
  /\ cb' = [cb EXCEPT ![n].perm = perm]
  /\ em' = [e \in EmIds |-> IF e = n THEN [em[e] EXCEPT !.st = "emitting"]
                             ELSE IF e \in SubsOf(n) THEN [em[e] EXCEPT !.st = "run"] ELSE em[e]]
  /\ UNCHANGED <<phase, q, ups, relayed, rpc, ctpc, ctleft, ctgot, ctopen, offer, tasksnil, tk, ts, started, sout, cl,
                 tokens, final, failed, execs, emitted, recvd, strm, csub>>
SubFinish(e) ==         \* the sending goroutine of one out-port has sent everything (wg.Done)
  /\ Running /\ e \in SubIds /\ em[e].st = "run" /\ em[e].wait = "" /\ em[e].i > Len(EmItems(e))
  /\ em' = [em EXCEPT ![e].st = "done"]
  /\ UNCHANGED <<phase, q, ups, relayed, rpc, ctpc, ctleft, ctgot, ctopen, offer, tasksnil, tk, ts, started, sout, cl,
                 tokens, final, failed, execs, emitted, recvd, strm, cb, csub>>
CombFinish(n) ==        \* wg.Wait() returned: deferred CloseAllOutPorts
  /\ Running /\ em[n].st = "emitting" /\ \A e \in SubsOf(n) : em[e].st = "done"
  /\ em' = [em EXCEPT ![n].st = "closing"]
  /\ cl' = [cl EXCEPT ![n] = {pr \in OutsOf(n) \X AllInPorts : pr[2] \in RemotesOf(pr[1])}]
  /\ UNCHANGED <<phase, q, ups, relayed, rpc, ctpc, ctleft, ctgot, ctopen, offer, tasksnil, tk, ts, started, sout,
                 tokens, final, failed, execs, emitted, recvd, strm, cb, csub>>

\* CloseConnection: atomic under the in-port's closeLock
CloseConn(x, op, r) ==
  /\ (IF x \in EmIds THEN Active(x) /\ em[x].st = "closing" ELSE Running /\ rpc[x] = "closing")
  /\ <<op, r>> \in cl[x]
  /\ ups' = [ups EXCEPT ![r] = @ \ {op}]
  /\ cl' = [cl EXCEPT ![x] = @ \ {<<op, r>>}]
  /\ IF x \in EmIds
     THEN /\ em' = IF cl'[x] = {} THEN [em EXCEPT ![x].st = "done"] ELSE em
          /\ rpc' = rpc
     ELSE /\ rpc' = IF cl'[x] = {} THEN [rpc EXCEPT ![x] = "done"] ELSE rpc
          /\ em' = em
  /\ UNCHANGED <<phase, q, relayed, ctpc, ctleft, ctgot, ctopen, offer, tasksnil, tk, ts, started, sout,
                 tokens, final, failed, execs, emitted, recvd, strm, cb, csub>>

(************************ cmd processes: Run loop and createTasks *********)
OutPairsTab == [n \in CmdRun |-> {<<op, r>> \in FileOutsOf(n) \X AllInPorts : r \in RemotesOf(op)}]
FirstPhase(n) == IF InPortsOf(n) # {} THEN "recv" ELSE IF ParamPortsOf(n) # {} THEN "recvp" ELSE "build"
PhasePorts(n, pc) == IF pc = "recv" THEN InPortsOf(n) ELSE IF pc = "recvp" THEN ParamPortsOf(n) ELSE {}

Fail == phase' = "failed"

ProcStart(n) ==
  /\ Running /\ rpc[n] = "idle"
  /\ IF PR(n).cores > MaxSlots
     THEN /\ Fail
          /\ UNCHANGED <<rpc, ctpc, ctleft>>
     ELSE /\ rpc' = [rpc EXCEPT ![n] = "loop"]
          /\ ctpc' = [ctpc EXCEPT ![n] = FirstPhase(n)]
          /\ ctleft' = [ctleft EXCEPT ![n] = PhasePorts(n, FirstPhase(n))]
          /\ phase' = phase
  /\ UNCHANGED <<q, ups, em, relayed, ctgot, ctopen, offer, tasksnil, tk, ts, started, sout, cl,
                 tokens, final, failed, execs, emitted, recvd, strm, cb, csub>>

\* one receive of createTasks (file or param port); i = 0 stands for "closed"
CTRecv(n, port, i) ==
  /\ Running /\ ctpc[n] \in {"recv", "recvp"} /\ port \in ctleft[n]
  /\ \/ /\ i > 0 /\ Receivable(port, i)
        /\ q' = [q EXCEPT ![port] = DropAt(@, i)]
        /\ recvd' = [recvd EXCEPT ![port] = Append(@, q[port][i])]
        /\ ctgot' = [ctgot EXCEPT ![n] = (port :> q[port][i][2]) @@ @]
        /\ ctopen' = ctopen
     \/ /\ i = 0 /\ PortClosed(port)
        /\ ctopen' = [ctopen EXCEPT ![n] = FALSE]
        /\ UNCHANGED <<q, recvd, ctgot>>
  /\ LET left == ctleft[n] \ {port}
         nxt  == IF left # {} THEN ctpc[n]
                 ELSE IF ~ctopen'[n] THEN "end"
                 ELSE IF ctpc[n] = "recv" /\ ParamPortsOf(n) # {} THEN "recvp" ELSE "build"
     IN /\ ctpc' = [ctpc EXCEPT ![n] = nxt]
        /\ ctleft' = [ctleft EXCEPT ![n] = IF left # {} THEN left ELSE PhasePorts(n, nxt)]
  /\ UNCHANGED <<phase, ups, em, relayed, rpc, offer, tasksnil, tk, ts, started, sout, cl,
                 tokens, final, failed, execs, emitted, strm, cb, csub>>

AfterOffer(n) == IF InPortsOf(n) = {} /\ ParamPortsOf(n) = {} THEN "end" ELSE FirstPhase(n)
GotIns(n)    == [i \in DOMAIN PlainIns(n) |-> ctgot[n][PortId(n, PlainIns(n)[i])]]
\* NewTask reads the sub-stream of every joined in-port to its end (one port after the other, map order), then the task exists
CsubFresh(n) == [done |-> {}, cur |-> "", got |-> [jp \in JoinPortsOf(n) |-> <<>>]]
SubDone(n)   == csub[n].done = JoinPortsOf(n) /\ csub[n].cur = ""
SubChan(n)   == PortId(SubOfCarrier(ctgot[n][csub[n].cur]), "in")       \* the channel behind the carrier received on the joined port
CTSubPick(n, jp) ==
  /\ Running /\ ctpc[n] = "build" /\ csub[n].cur = "" /\ jp \in JoinPortsOf(n) \ csub[n].done
  /\ csub' = [csub EXCEPT ![n].cur = jp]
  /\ UNCHANGED <<phase, q, ups, em, relayed, rpc, ctpc, ctleft, ctgot, ctopen, offer, tasksnil, tk, ts, started, sout, cl,
                 tokens, final, failed, execs, emitted, recvd, strm, cb>>
CTSub(n, i) ==
  /\ Running /\ ctpc[n] = "build" /\ csub[n].cur # ""
  /\ LET port == SubChan(n) IN
     \/ /\ i > 0 /\ Receivable(port, i)
        /\ q' = [q EXCEPT ![port] = DropAt(@, i)]
        /\ recvd' = [recvd EXCEPT ![port] = Append(@, q[port][i])]
        /\ csub' = [csub EXCEPT ![n].got[csub[n].cur] = Append(@, q[port][i][2])]
     \/ /\ i = 0 /\ PortClosed(port)
        /\ csub' = [csub EXCEPT ![n].done = @ \cup {csub[n].cur}, ![n].cur = ""]
        /\ UNCHANGED <<q, recvd>>
  /\ UNCHANGED <<phase, ups, em, relayed, rpc, ctpc, ctleft, ctgot, ctopen, offer, tasksnil, tk, ts, started, sout, cl,
                 tokens, final, failed, execs, emitted, strm, cb>>
GotParams(n) == [i \in DOMAIN PR(n).params |-> ctgot[n][PortId(n, PR(n).params[i])]]

\* NewTask + offer on the unbuffered task channel ("task.new")
CTOffer(n) ==
  /\ Running /\ ctpc[n] = "build" /\ ("SubNoDrain" \in Weak \/ SubDone(n)) /\ csub[n].cur = ""
  /\ IF \E i \in DOMAIN GotParams(n) : GotParams(n)[i] = ""
     THEN /\ Fail        \* "Missing param value"
          /\ UNCHANGED <<tk, ts, ctpc, ctgot, ctleft, ctopen, offer, csub>>
     ELSE /\ tk' = [tk EXCEPT ![n] = Append(@, [ins |-> GotIns(n), params |-> GotParams(n), subs |-> csub[n].got,
                                               car |-> [jp \in JoinPortsOf(n) |-> ctgot[n][jp]],
                                               key |-> TaskKey(n, GotIns(n), GotParams(n)),
                                               out |-> [o \in ToSet(PR(n).outs) |->
                                                         OutItem(n, o, GotIns(n), GotParams(n))]])]
          /\ ts' = [ts EXCEPT ![n] = Append(@, "new")]
          /\ offer' = [offer EXCEPT ![n] = Append(@, Len(tk[n]) + 1)]
          /\ ctgot' = [ctgot EXCEPT ![n] = <<>>]
          /\ csub' = [csub EXCEPT ![n] = CsubFresh(n)]
          /\ phase' = phase
          /\ IF Closed     \* the send on the unbuffered channel blocks until the Run loop takes it
             THEN /\ ctpc' = [ctpc EXCEPT ![n] = "offered"]
                  /\ UNCHANGED <<ctleft, ctopen>>
             ELSE /\ ctpc' = [ctpc EXCEPT ![n] = AfterOffer(n)]
                  /\ ctleft' = [ctleft EXCEPT ![n] = PhasePorts(n, AfterOffer(n))]
                  /\ ctopen' = [ctopen EXCEPT ![n] = TRUE]
  /\ UNCHANGED <<q, ups, em, relayed, rpc, tasksnil, started, sout, cl,
                 tokens, final, failed, execs, emitted, recvd, strm, cb>>

StreamItems == UNION {{emitted[op][i] : i \in DOMAIN emitted[op]} : op \in UNION {StreamOutsOf(n) : n \in CmdRun}}
TKey(n, k)  == tk[n][k].key
TOuts(n, k)    == {tk[n][k].out[o] : o \in {x \in DOMAIN tk[n][k].out : PortId(n, x) \notin StreamOutsOf(n)}}   \* files
TStreams(n, k) == {tk[n][k].out[o] : o \in {x \in DOMAIN tk[n][k].out : PortId(n, x) \in StreamOutsOf(n)}}      \* FIFO items
TInItems(n, k) == {tk[n][k].ins[i] : i \in DOMAIN tk[n][k].ins}
StreamPairsTab == [n \in CmdRun |-> IF "StreamAtDone" \in Weak THEN {}
                                      ELSE {pr \in {<<op, r>> \in FileOutsOf(n) \X AllInPorts : r \in RemotesOf(op)} : pr[1] \in StreamOutsOf(n)}]
TOut(n, k, port) == tk[n][k].out[port]
PortNameTab == [op \in UNION {FileOutsOf(n) : n \in {m \in PNames : IsCmd(m)}} |->
                  CHOOSE o \in ToSet(PR(Owner(op)).outs) : PortId(Owner(op), o) = op]
PortName(n, op) == PortNameTab[op]

\* Run loop receives the task, starts its goroutine, appends it to the FIFO ("task.take")
\* With streaming out-ports the loop first creates the FIFOs and sends the streaming IPs ("sendfifo"), then starts the goroutine.
TakeTask(n) ==
  /\ Running /\ rpc[n] = "loop" /\ offer[n] # <<>>
  /\ LET k == Head(offer[n]) IN
     IF StreamPairsTab[n] = {}
     THEN /\ ts' = [ts EXCEPT ![n][k] = IF Closed THEN "begun" ELSE "spawned"]   \* closed model: ExBegin fused
          /\ started' = [started EXCEPT ![n] = Append(@, k)]
          /\ UNCHANGED <<rpc, sout, emitted, strm>>
     ELSE /\ ts' = [ts EXCEPT ![n][k] = "fifo"]
          /\ started' = started
          /\ rpc' = [rpc EXCEPT ![n] = "sendfifo"]
          /\ sout' = [sout EXCEPT ![n] = [left |-> StreamPairsTab[n], wait |-> <<>>, n |-> k]]
          /\ strm' = [strm EXCEPT !.fifos = @ \cup TStreams(n, k)]
          /\ emitted' = [op \in AllOuts |-> IF op \in StreamOutsOf(n)
                                             THEN Append(emitted[op], TOut(n, k, PortName(n, op)))
                                             ELSE emitted[op]]
  /\ offer' = [offer EXCEPT ![n] = Tail(@)]
  /\ IF Closed
     THEN /\ ctpc' = [ctpc EXCEPT ![n] = AfterOffer(n)]
          /\ ctleft' = [ctleft EXCEPT ![n] = PhasePorts(n, AfterOffer(n))]
          /\ ctopen' = [ctopen EXCEPT ![n] = TRUE]
     ELSE UNCHANGED <<ctpc, ctleft, ctopen>>
  /\ UNCHANGED <<phase, q, ups, em, relayed, ctgot, tasksnil, tk, cl,
                 tokens, final, failed, execs, recvd, cb, csub>>

\* the Run loop sends the streaming IP of the task just taken to every remote of the port, then spawns the task
FifoSent(n) == LET k == sout[n].n IN
  /\ rpc' = [rpc EXCEPT ![n] = "loop"]
  /\ ts' = [ts EXCEPT ![n][k] = IF Closed THEN "begun" ELSE "spawned"]
  /\ started' = [started EXCEPT ![n] = Append(@, k)]
FifoSendBegin(n, op, r) ==
  /\ Running /\ rpc[n] = "sendfifo" /\ sout[n].wait = <<>> /\ <<op, r>> \in sout[n].left
  /\ CanSend(r)
  /\ q' = [q EXCEPT ![r] = Append(@, <<op, TOut(n, sout[n].n, PortName(n, op))>>)]
  /\ LET left == sout[n].left \ {<<op, r>>} IN
     IF Closed
     THEN /\ sout' = [sout EXCEPT ![n].left = left]
          /\ IF left = {} THEN FifoSent(n) ELSE UNCHANGED <<rpc, ts, started>>
     ELSE /\ sout' = [sout EXCEPT ![n].left = left, ![n].wait = <<op, r>>]
          /\ UNCHANGED <<rpc, ts, started>>
  /\ UNCHANGED <<phase, ups, em, relayed, ctpc, ctleft, ctgot, ctopen, offer, tasksnil, tk, cl,
                 tokens, final, failed, execs, emitted, recvd, strm, cb, csub>>
FifoSendDone(n, op, r) ==     \* acceptor mode only
  /\ ~Closed /\ Running /\ rpc[n] = "sendfifo" /\ sout[n].wait = <<op, r>>
  /\ sout' = [sout EXCEPT ![n].wait = <<>>]
  /\ IF sout[n].left = {} THEN FifoSent(n) ELSE UNCHANGED <<rpc, ts, started>>
  /\ UNCHANGED <<phase, q, ups, em, relayed, ctpc, ctleft, ctgot, ctopen, offer, tasksnil, tk, cl,
                 tokens, final, failed, execs, emitted, recvd, strm, cb, csub>>

\* createTasks has stopped: what still arrives on the process's ports is received and dropped
\* (drainInPorts, fix F12); switched off by the weakening flag "NoDrain"
CTDrain(n, port, i) ==
  /\ Running /\ ctpc[n] \in {"end", "closed"} /\ "NoDrain" \notin Weak
  /\ port \in InPortsOf(n) \cup ParamPortsOf(n) /\ Receivable(port, i)
  /\ "SeqDrain" \in Weak => port = CHOOSE p \in {x \in InPortsOf(n) \cup ParamPortsOf(n) : ~PortClosed(x)} : TRUE
  /\ q' = [q EXCEPT ![port] = DropAt(@, i)]
  /\ recvd' = [recvd EXCEPT ![port] = Append(@, q[port][i])]
  /\ UNCHANGED <<phase, ups, em, relayed, rpc, ctpc, ctleft, ctgot, ctopen, offer, tasksnil, tk, ts, started, sout, cl,
                 tokens, final, failed, execs, emitted, strm, cb, csub>>

CTEnd(n) ==           \* createTasks returns, deferred close(ch)
  /\ Running /\ ctpc[n] = "end"
  /\ ctpc' = [ctpc EXCEPT ![n] = "closed"]
  /\ UNCHANGED <<phase, q, ups, em, relayed, rpc, ctleft, ctgot, ctopen, offer, tasksnil, tk, ts, started, sout, cl,
                 tokens, final, failed, execs, emitted, recvd, strm, cb, csub>>

TasksClosed(n) ==     \* Run loop sees the closed task channel
  /\ Running /\ rpc[n] = "loop" /\ ctpc[n] = "closed" /\ offer[n] = <<>> /\ ~tasksnil[n]
  /\ tasksnil' = [tasksnil EXCEPT ![n] = TRUE]
  /\ UNCHANGED <<phase, q, ups, em, relayed, rpc, ctpc, ctleft, ctgot, ctopen, offer, tk, ts, started, sout, cl,
                 tokens, final, failed, execs, emitted, recvd, strm, cb, csub>>

(************************ tasks *******************************************)
SetTs(n, k, s) == ts' = [ts EXCEPT ![n][k] = s]
TaskUnch0 == UNCHANGED <<q, ups, em, relayed, rpc, ctpc, ctleft, ctgot, ctopen, offer, tasksnil, tk, started, sout, cl,
                         emitted, recvd, cb, csub>>
TaskUnch == TaskUnch0 /\ UNCHANGED strm

ExBegin(n, k) ==       \* "exec.begin"
  /\ Running /\ k \in DOMAIN ts[n] /\ ts[n][k] = "spawned"
  /\ SetTs(n, k, "begun")
  /\ TaskUnch /\ UNCHANGED <<phase, tokens, final, failed, execs>>

ExSkip(n, k) ==        \* some declared output exists: no slots, no command ("exec.skip")
  /\ Running /\ k \in DOMAIN ts[n] /\ ts[n][k] = "begun"
  /\ TOuts(n, k) \cap final # {} /\ "NoSkipCheck" \notin Weak
  /\ SetTs(n, k, "doneoffer")
  /\ TaskUnch /\ UNCHANGED <<phase, tokens, final, failed, execs>>

Acquire(n, k) ==       \* IncConcurrentTasks completed ("exec.acquired")
  /\ Running /\ k \in DOMAIN ts[n] /\ ts[n][k] = "begun"
  /\ TOuts(n, k) \cap final = {} \/ "NoSkipCheck" \in Weak
  /\ Closed => tokens + PR(n).cores <= MaxSlots
  /\ tokens' = tokens + PR(n).cores
  /\ SetTs(n, k, "acquired")
  /\ TaskUnch /\ UNCHANGED <<phase, final, failed, execs>>

CmdStart(n, k) ==      \* "cmd.start"
  /\ Running /\ k \in DOMAIN ts[n] /\ ts[n][k] = "acquired"
  /\ SetTs(n, k, "running")
  /\ execs' = IF TKey(n, k) \in DOMAIN execs THEN [execs EXCEPT ![TKey(n, k)] = @ + 1]
              ELSE (TKey(n, k) :> 1) @@ execs
  /\ strm' = [strm EXCEPT !.wopen = @ \cup TStreams(n, k), !.ropen = @ \cup (TInItems(n, k) \cap StreamItems)]
  /\ TaskUnch0 /\ UNCHANGED <<phase, tokens, final, failed>>

\* A FIFO is a rendez-vous: open() blocks until the other end is opened too, so neither command can end before the
\* other one has started (the reader may see end-of-file, and exit, as soon as the writer has closed - before the writer exits).
CmdEnd(n, k) ==        \* command returned zero ("cmd.end")
  /\ Running /\ k \in DOMAIN ts[n] /\ ts[n][k] = "running"
  /\ FaultOf(TKey(n, k)) \notin CmdFaults
  /\ TStreams(n, k) \subseteq strm.ropen                                   \* every stream this task writes has found its reader
  /\ (TInItems(n, k) \cap StreamItems) \subseteq strm.wopen                \* every stream this task reads has found its writer
  /\ UNCHANGED strm
  /\ IF Closed /\ FaultOf(TKey(n, k)) # "skip_output"
     THEN \* closed model: Publish and Release are local to the task goroutine and fused with CmdEnd
          /\ SetTs(n, k, "doneoffer")
          /\ final' = final \cup TOuts(n, k)
          /\ tokens' = tokens - PR(n).cores
     ELSE /\ SetTs(n, k, "ended")
          /\ UNCHANGED <<tokens, final>>
  /\ TaskUnch0 /\ UNCHANGED <<phase, failed, execs>>

CmdFail(n, k) ==       \* command returned non-zero / was killed -> Fail -> os.Exit(1)
  /\ Running /\ k \in DOMAIN ts[n] /\ ts[n][k] = "running"
  /\ FaultOf(TKey(n, k)) \in CmdFaults
  /\ Fail /\ failed' = failed \cup {TKey(n, k)}
  /\ TaskUnch /\ UNCHANGED <<ts, tokens, final, execs>>

EnsureFail(n, k) ==    \* a declared output is missing in the temp dir -> Fail
  /\ Running /\ k \in DOMAIN ts[n] /\ ts[n][k] = "ended"
  /\ FaultOf(TKey(n, k)) = "skip_output"
  /\ Fail /\ failed' = failed \cup {TKey(n, k)}
  /\ TaskUnch /\ UNCHANGED <<ts, tokens, final, execs>>

Publish(n, k) ==       \* audit files + FinalizePaths (fused at this grain; TaskFS.tla splits it)
  /\ Running /\ k \in DOMAIN ts[n] /\ ts[n][k] = "ended"
  /\ FaultOf(TKey(n, k)) # "skip_output"
  /\ final' = final \cup TOuts(n, k)
  /\ SetTs(n, k, "published")
  /\ TaskUnch /\ UNCHANGED <<phase, tokens, failed, execs>>

Release(n, k) ==       \* DecConcurrentTasks, then the task offers Done
  /\ Running /\ k \in DOMAIN ts[n] /\ ts[n][k] = "published"
  /\ tokens' = tokens - PR(n).cores
  /\ SetTs(n, k, "doneoffer")
  /\ TaskUnch /\ UNCHANGED <<phase, final, failed, execs>>

\* Run loop takes Done of the OLDEST started task and starts sending its outputs ("done.recv")
TakeDone(n) ==
  /\ Running /\ rpc[n] = "loop" /\ started[n] # <<>>
  /\ "SpawnAllThenWait" \in Weak => tasksnil[n]
  /\ \E j \in (IF "AnyDoneOrder" \in Weak THEN DOMAIN started[n] ELSE {1}) : LET k == started[n][j] IN
     /\ ts[n][k] = "doneoffer"
     /\ ts' = [ts EXCEPT ![n][k] = "done"]
     /\ started' = [started EXCEPT ![n] = DropAt(@, j)]
     /\ LET pend == IF "SendFirstRemoteOnly" \in Weak
                     THEN {pr \in OutPairsTab[n] : pr[2] = CHOOSE r \in RemotesOf(pr[1]) : TRUE}
                     ELSE OutPairsTab[n] \ StreamPairsTab[n]     \* streaming IPs have been sent when the task was taken
        IN /\ sout' = [sout EXCEPT ![n] = [left |-> pend, wait |-> <<>>, n |-> k]]
           /\ rpc' = [rpc EXCEPT ![n] = IF pend = {} THEN "loop" ELSE "sendout"]
     /\ emitted' = [op \in AllOuts |-> IF op \in FileOutsOf(n) \ (IF "StreamAtDone" \in Weak THEN {} ELSE StreamOutsOf(n))
                                        THEN Append(emitted[op], TOut(n, k, PortName(n, op)))
                                        ELSE emitted[op]]
     /\ strm' = IF "NoFifoRemove" \in Weak THEN strm ELSE [strm EXCEPT !.fifos = @ \ TStreams(n, k)]        \* os.Remove(FifoPath)
  /\ UNCHANGED <<phase, q, ups, em, relayed, ctpc, ctleft, ctgot, ctopen, offer, tasksnil, tk, cl,
                 tokens, final, failed, execs, recvd, cb, csub>>

SendOutBegin(n, op, r) ==
  /\ Running /\ rpc[n] = "sendout" /\ sout[n].wait = <<>> /\ <<op, r>> \in sout[n].left
  /\ CanSend(r)
  /\ q' = [q EXCEPT ![r] = Append(@, <<op, TOut(n, sout[n].n, PortName(n, op))>>)]
  /\ LET left == sout[n].left \ {<<op, r>>} IN
     IF Closed
     THEN /\ sout' = [sout EXCEPT ![n].left = left]
          /\ rpc' = [rpc EXCEPT ![n] = IF left = {} THEN "loop" ELSE "sendout"]
     ELSE /\ sout' = [sout EXCEPT ![n].left = left, ![n].wait = <<op, r>>]
          /\ rpc' = rpc
  /\ UNCHANGED <<phase, ups, em, relayed, ctpc, ctleft, ctgot, ctopen, offer, tasksnil, tk, ts, started, cl,
                 tokens, final, failed, execs, emitted, recvd, strm, cb, csub>>

SendOutDone(n, op, r) ==     \* acceptor mode only
  /\ ~Closed /\ Running /\ rpc[n] = "sendout" /\ sout[n].wait = <<op, r>>
  /\ sout' = [sout EXCEPT ![n].wait = <<>>]
  /\ rpc' = [rpc EXCEPT ![n] = IF sout[n].left = {} THEN "loop" ELSE "sendout"]
  /\ UNCHANGED <<phase, q, ups, em, relayed, ctpc, ctleft, ctgot, ctopen, offer, tasksnil, tk, ts, started, cl,
                 tokens, final, failed, execs, emitted, recvd, strm, cb, csub>>

RunExit(n) ==          \* loop ends, deferred CloseOutPorts ("proc.exit")
  /\ Running /\ rpc[n] = "loop" /\ tasksnil[n]
  /\ "CloseBeforeDrain" \notin Weak => started[n] = <<>>
  /\ LET pend == OutPairsTab[n] IN
     /\ cl' = [cl EXCEPT ![n] = pend]
     /\ rpc' = [rpc EXCEPT ![n] = IF pend = {} THEN "done" ELSE "closing"]
  /\ UNCHANGED <<phase, q, ups, em, relayed, ctpc, ctleft, ctgot, ctopen, offer, tasksnil, tk, ts, started, sout,
                 tokens, final, failed, execs, emitted, recvd, strm, cb, csub>>

(************************ sink and main ***********************************)
SinkPorts == (IF SinkUps # {} THEN {SinkIn} ELSE {}) \cup (IF PSinkUps # {} THEN {PSinkIn} ELSE {})
SinkRuns  == "SinkOnlyIfDriver" \notin Weak \/ Driver = "SINK"   \* fix F1: the sink always runs

SinkRecv(port, i) ==
  /\ Running /\ SinkRuns /\ port \in SinkPorts /\ Receivable(port, i)
  /\ ("SinkFileFirst" \in Weak /\ port = PSinkIn /\ SinkIn \in SinkPorts) => PortClosed(SinkIn)
  /\ q' = [q EXCEPT ![port] = DropAt(@, i)]
  /\ recvd' = [recvd EXCEPT ![port] = Append(@, q[port][i])]
  /\ UNCHANGED <<phase, ups, em, relayed, rpc, ctpc, ctleft, ctgot, ctopen, offer, tasksnil, tk, ts, started, sout, cl,
                 tokens, final, failed, execs, emitted, strm, cb, csub>>

DriverDone == /\ SinkRuns => \A port \in SinkPorts : PortClosed(port)
              /\ Driver # "SINK" => rpc[Driver] = "done"
\* fix F16: Run waits for every started process (procsDone.Wait()); switched off by "NoWaitAll"
AllProcsDone == "NoWaitAll" \in Weak \/ (/\ \A n \in CmdRun : rpc[n] = "done"
                                          /\ \A e \in Emitters : em[e].st = "done")

MainReturn ==
  /\ Running /\ DriverDone /\ AllProcsDone
  /\ phase' = "returned"
  /\ UNCHANGED <<q, ups, em, relayed, rpc, ctpc, ctleft, ctgot, ctopen, offer, tasksnil, tk, ts, started, sout, cl,
                 tokens, final, failed, execs, emitted, recvd, strm, cb, csub>>

SubStep(n) == \/ \E jp \in JoinPortsOf(n) : CTSubPick(n, jp)
              \/ (csub[n].cur # "" /\ ctpc[n] = "build" /\ \E i \in 0..Len(q[SubChan(n)]) : CTSub(n, i))
CombStep == \/ \E n \in Combs : \/ \E port \in CombPorts(n) : CombPick(n, port)
                                 \/ (cb[n].cur # "" /\ \E i \in 0..Len(q[cb[n].cur]) : CombRecv(n, i))
                                 \/ \E perm \in CombPerms(n) : CombEmit(n, perm)
                                 \/ CombFinish(n)
            \/ \E e \in SubIds : SubFinish(e)
Terminated == phase \in {"returned", "failed"} /\ UNCHANGED vars
NoStates == phase = "none"   \* constraint used when only the constant definitions are wanted

Next ==
  \/ StartProcs
  \/ \E e \in EmIds : \/ \E r \in AllInPorts : EmSendBegin(e, r) \/ EmSendDone(e, r)
                      \/ EmFinish(e)
  \/ \E e \in Relays : \E i \in 0..Len(q[RelayIn(e)]) : RelayRecv(e, i)
  \/ CombStep
  \/ \E x \in EmIds \cup CmdRun : \E op \in AllOuts, r \in AllInPorts : CloseConn(x, op, r)
  \/ \E n \in CmdRun :
        \/ ProcStart(n) \/ CTOffer(n) \/ TakeTask(n) \/ CTEnd(n) \/ TasksClosed(n)
        \/ TakeDone(n) \/ RunExit(n)
        \/ \E port \in AllInPorts : \E i \in 0..Len(q[port]) : CTRecv(n, port, i)
        \/ SubStep(n)
        \/ \E port \in AllInPorts : \E i \in 1..Len(q[port]) : CTDrain(n, port, i)
        \/ \E op \in AllOuts, r \in AllInPorts : SendOutBegin(n, op, r) \/ SendOutDone(n, op, r)
        \/ \E op \in StreamOutsOf(n), r \in AllInPorts : FifoSendBegin(n, op, r) \/ FifoSendDone(n, op, r)
        \/ \E k \in DOMAIN ts[n] :
              \/ ExBegin(n, k) \/ ExSkip(n, k) \/ Acquire(n, k) \/ CmdStart(n, k) \/ CmdEnd(n, k)
              \/ CmdFail(n, k) \/ EnsureFail(n, k) \/ Publish(n, k) \/ Release(n, k)
  \/ \E port \in SinkPorts : \E i \in 1..Len(q[port]) : SinkRecv(port, i)
  \/ MainReturn
  \/ Terminated

Spec == Init /\ [][Next]_vars /\ WF_vars(Next)

(************************ properties **************************************)
FromSub(s, op) == SelectSeq(s, LAMBDA x : x[1] = op)
Items(s) == [i \in DOMAIN s |-> s[i][2]]
IsPrefixOf(a, b) == Len(a) <= Len(b) /\ SubSeq(b, 1, Len(a)) = a

TypeOK == /\ phase \in {"init", "running", "returned", "failed"}
          /\ tokens \in 0..(MaxSlots + 64)

\* C04: no command runs twice; every received sequence is, per upstream, a prefix of what
\* that upstream emitted; at return everything emitted was delivered to every connected port
C04_Once == \A k \in DOMAIN execs : execs[k] <= 1
C04_Prefix == \A port \in AllInPorts : \A op \in InitUps(port) \cap AllOuts :
                 IsPrefixOf(Items(FromSub(recvd[port] \o q[port], op)), emitted[op])
C04_AtReturn == phase = "returned" =>
   /\ \A port \in ConsumerPorts \cup SinkPorts : \A op \in InitUps(port) \cap AllOuts :
         Items(FromSub(recvd[port] \o q[port], op)) = emitted[op]
   /\ MergeInsensitive => DOMAIN execs = ExpExecKeys     \* otherwise the pairing across ports depends on the merge order
   /\ MergeInsensitive => final = Pre \cup ExpFiles
   /\ Cardinality(DOMAIN execs) = Cardinality(ExpExecKeys) \/ Pre # {}
C04_Tasks == phase = "returned" => \A n \in CmdRun : Len(tk[n]) = NSets(n)

\* C05: Run returns only when every started process is done, every task is done, every item
\* was forwarded (deadlock freedom is TLC's deadlock check, termination the temporal property)
C05_NoEarly == phase = "returned" =>
   /\ \A n \in CmdRun : \A k \in DOMAIN ts[n] : ts[n][k] = "done"
   /\ \A n \in CmdRun : offer[n] = <<>> /\ ctpc[n] \notin {"build", "offered"}
   /\ \A n \in CmdRun : rpc[n] = "done"
   /\ tokens = 0
C05_Live == <>(phase \in {"returned", "failed"})

\* C17 at this grain: nothing is ever a file at a streaming path, and no FIFO is left when Run returns
C17_NoFile == \A n \in CmdRun : \A k \in DOMAIN tk[n] : TStreams(n, k) \cap final = {}
C17_NoFifoLeft == phase = "returned" => strm.fifos = {}
\* no command that reads or writes a stream has ended without its peer having started
C17_Rendezvous == \A n \in CmdRun : \A k \in DOMAIN ts[n] :
                     ts[n][k] \in {"ended", "published", "doneoffer", "done"} /\ TKey(n, k) \in DOMAIN execs
                     => /\ TStreams(n, k) \subseteq strm.ropen
                        /\ (TInItems(n, k) \cap StreamItems) \subseteq strm.wopen

\* C18 at this grain: the members a task was built with are everything that ever went into the sub-stream behind its carrier
C18_Whole == \A n \in CmdRun : \A k \in DOMAIN tk[n] : \A jp \in JoinPortsOf(n) :
                LET sp == PortId(SubOfCarrier(tk[n][k].car[jp]), "in")
                IN  tk[n][k].subs[jp] = Items(recvd[sp]) /\ q[sp] = <<>>

\* C06 at this grain: running commands never need more slots than exist
RunningCores == LET S == {<<n, k>> \in UNION {{n} \X DOMAIN ts[n] : n \in CmdRun} :
                            ts[n][k] \in {"running", "ended", "published"}}
                    RECURSIVE Sum(_)
                    Sum(T) == IF T = {} THEN 0 ELSE LET x == CHOOSE y \in T : TRUE
                                                    IN PR(x[1]).cores + Sum(T \ {x})
                IN  Sum(S)
C06_Bound == RunningCores <= MaxSlots /\ tokens <= MaxSlots

\* C08: outputs leave in the order the input sets arrived (= creation order of the tasks)
C08_Order == \A n \in CmdRun : \A op \in FileOutsOf(n) :
                \A i \in DOMAIN emitted[op] : emitted[op][i] = TOut(n, i, PortName(n, op))

\* C09: a failure is never silent, the failing task's outputs never become final and
\* nothing that depends on them executes
C09_FailStops == /\ failed # {} => phase = "failed"
                 /\ \A n \in CmdRun : \A k \in DOMAIN ts[n] :
                       TKey(n, k) \in failed => TOuts(n, k) \cap final = {}
WillFail == \E t \in ExpTasks : t.key \in DOMAIN Faults /\ t.outs \cap Pre = {}
C09_NoSilent == (phase = "returned" /\ MergeInsensitive) => ~WillFail

\* C02: a task whose outputs pre-exist is never executed
C02_NoReexec == MergeInsensitive => \A t \in ExpTasks : t.outs \cap Pre # {} => t.key \notin DOMAIN execs

\* C16: only processes of the upstream closure execute anything
C16_Closure == MergeInsensitive => \A key \in DOMAIN execs : \E t \in ExpTasks : t.key = key
=============================================================================
