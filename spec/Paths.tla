------------------------------- MODULE Paths -------------------------------
(***************************************************************************)
(* Where does a file written at an output placeholder end up?              *)
(* Transcription of the path handling of scipipe (ip.go TempPath,          *)
(* task.go formatCommand / createDirs / FinalizePaths, ip.go               *)
(* WriteAuditLogToFile) over paths modelled as sequences of tokens, so     *)
(* that the CHARACTER-level strings.ReplaceAll(path, "../", "__parent__")  *)
(* is modelled exactly, together with a small directory-tree model with    *)
(* POSIX resolution.  TLC enumerates every path of the grammar below, and  *)
(* for each computes                                                       *)
(*   - Norm: the location the declared path denotes (property level), and  *)
(*   - Outcome: what the code's steps do (code level): "ok" at a location  *)
(*     or the step that fails.                                             *)
(* The cases are exported (CasesJson) and replayed on the real binary.     *)
(***************************************************************************)
EXTENDS Integers, Sequences, FiniteSets, TLC, Json, SequencesExt

CONSTANTS MaxSegs      \* number of directory segments in front of the file name (0..MaxSegs)

\* tokens: "a" "b" (name characters), "." , "/" , "P" = the literal __parent__, "R" = the literal __fsroot__
SegAlphabet == { <<"a">>, <<"b">>, <<".", ".">>, <<".">>, <<"a", ".", ".">>, <<".", ".", "a">>, <<".", ".", ".">>,
                 <<"P">>, <<"P", "a">>, <<"R">> }
FileNames == { <<"f">>, <<"P", "f">>, <<"f", ".", ".">> }
Abs == {FALSE, TRUE}

RECURSIVE SegSeqs(_)
SegSeqs(n) == IF n = 0 THEN {<<>>} ELSE {Append(s, g) : s \in SegSeqs(n - 1), g \in SegAlphabet}
AllSegSeqs == UNION {SegSeqs(n) : n \in 0..MaxSegs}
PathRecs == {[abs |-> a, dirs |-> d, file |-> f] : a \in Abs, d \in AllSegSeqs, f \in FileNames}

RECURSIVE JoinTok(_, _)
JoinTok(segs, sep) == IF segs = <<>> THEN <<>> ELSE IF Len(segs) = 1 THEN segs[1]
                      ELSE segs[1] \o sep \o JoinTok(Tail(segs), sep)
Tokens(p) == (IF p.abs THEN <<"/">> ELSE <<>>) \o JoinTok(Append(p.dirs, p.file), <<"/">>)

TokStr(t) == IF t = "P" THEN "__parent__" ELSE IF t = "R" THEN "__fsroot__" ELSE t
RECURSIVE Str(_)
Str(ts) == IF ts = <<>> THEN "" ELSE TokStr(ts[1]) \o Str(Tail(ts))

\* strings.ReplaceAll(s, "../", "__parent__") on tokens, left to right, non-overlapping
RECURSIVE ReplaceParent(_)
ReplaceParent(ts) == IF Len(ts) < 3 THEN ts
                     ELSE IF ts[1] = "." /\ ts[2] = "." /\ ts[3] = "/" THEN <<"P">> \o ReplaceParent(SubSeq(ts, 4, Len(ts)))
                     ELSE <<ts[1]>> \o ReplaceParent(Tail(ts))
\* FileIP.TempPath
TempPath(ts) == LET q == ReplaceParent(ts) IN IF q[1] = "/" THEN <<"R">> \o q ELSE q

\* split a token sequence at "/" into segments (sequences of tokens); empty segments are dropped like the kernel does
RECURSIVE Split(_, _)
Split(ts, cur) == IF ts = <<>> THEN (IF cur = <<>> THEN <<>> ELSE <<cur>>)
                  ELSE IF ts[1] = "/" THEN (IF cur = <<>> THEN <<>> ELSE <<cur>>) \o Split(Tail(ts), <<>>)
                  ELSE Split(Tail(ts), Append(cur, ts[1]))
Segs(ts) == Split(ts, <<>>)
IsAbsTok(ts) == ts # <<>> /\ ts[1] = "/"
DOTDOT == <<".", ".">>
DOT == <<".">>

\* the process runs in /r/w ; a location is a sequence of segments from the root
Cwd == << <<"r">>, <<"w">> >>
RECURSIVE Walk(_, _)
Walk(loc, segs) == IF segs = <<>> THEN loc
                   ELSE IF segs[1] = DOT THEN Walk(loc, Tail(segs))
                   ELSE IF segs[1] = DOTDOT THEN Walk(IF loc = <<>> THEN <<>> ELSE SubSeq(loc, 1, Len(loc) - 1), Tail(segs))
                   ELSE Walk(Append(loc, segs[1]), Tail(segs))
Norm(base, ts) == Walk(IF IsAbsTok(ts) THEN <<>> ELSE base, Segs(ts))
DirTok(ts) == LET s == Segs(ts) IN  \* token sequence of the directory part
              (IF IsAbsTok(ts) THEN <<"/">> ELSE <<>>) \o JoinTok(SubSeq(s, 1, Len(s) - 1), <<"/">>)

\* os.MkdirAll(dir) from base: every prefix location gets created (lexical walk, ".." steps need their target to exist)
LocPrefixes(loc) == {SubSeq(loc, 1, k) : k \in 0..Len(loc)}
MkdirAll(dirs, base, ts) == dirs \cup LocPrefixes(Norm(base, ts))

\* semantic classification of the declared path (property level)
UsesParent(p) == \E i \in DOMAIN p.dirs : p.dirs[i] = DOTDOT
NeedsDest(p) == p.abs \/ UsesParent(p)      \* "relative to parent directories, or absolute (destination directory existing)"

InitDirs == LocPrefixes(Cwd)
TmpDir == Append(Cwd, <<"T">>)               \* the task's temp dir, one segment below the working directory

\* what the steps of Task.Execute do for declared output path p when the destination directory exists or not
Outcome(p, destExists) ==
  LET ts    == Tokens(p)
      tp    == TempPath(ts)
      final == Norm(Cwd, ts)
      fdir  == Norm(Cwd, DirTok(ts))
      d0    == InitDirs \cup (IF destExists THEN LocPrefixes(fdir) ELSE {})
      d1    == MkdirAll(d0 \cup {TmpDir}, TmpDir, DirTok(tp))            \* createDirs: temp dir + out dir inside it
      wrote == Norm(TmpDir, tp)                                         \* the command writes {o:..} = TempPath, cwd = temp dir
      d2    == MkdirAll(d1, Cwd, DirTok(tp))                             \* WriteAuditLogToFile -> createDirs(""): dir of TempPath, from the working dir
  IN  IF fdir \notin d2 THEN [res |-> "fail_audit", at |-> <<>>]          \* <path>.audit.json cannot be written
      ELSE [res |-> "ok", at |-> final]                                  \* os.Rename(tmp/TempPath, Path)

\* input placeholder: "../" + path (absolute unchanged), resolved from inside the temp dir
InputResolves(p) == LET ts == Tokens(p)
                        ref == IF IsAbsTok(ts) THEN ts ELSE <<".", ".", "/">> \o ts
                    IN  Norm(TmpDir, ref) = Norm(Cwd, ts)

\* property C13 on the model: in the stated domain the file ends at exactly the declared path
Holds(p) == /\ (NeedsDest(p) => Outcome(p, TRUE).res = "ok" /\ Outcome(p, TRUE).at = Norm(Cwd, Tokens(p)))
            /\ (~NeedsDest(p) => Outcome(p, FALSE).res = "ok" /\ Outcome(p, FALSE).at = Norm(Cwd, Tokens(p)))
            /\ InputResolves(p)
\* the class the transcription predicts to fail (finding F9): a char-level "../" that is not a ".." segment
F9(p) == ~NeedsDest(p) /\ ReplaceParent(Tokens(p)) # Tokens(p)

Case(p) == [path |-> Str(Tokens(p)), needsdest |-> NeedsDest(p),
            res |-> Outcome(p, NeedsDest(p)).res, f9 |-> F9(p), holds |-> Holds(p),
            temppath |-> Str(TempPath(Tokens(p)))]

VARIABLE p
Init == p \in PathRecs
Next == UNCHANGED p
Spec == Init /\ [][Next]_p

\* the transcription violates the property exactly on the F9 class (TLC must report no other path)
C13_OnlyF9 == Holds(p) \/ F9(p)
\* vacuity: the F9 class is not empty and really fails in the transcription
C13_F9Fails == F9(p) => ~Holds(p)
Export == PrintT("CASE " \o ToJson(Case(p)))
=============================================================================
