------------------------------ MODULE SlotsInd ------------------------------
(* Typed copy of the slot mechanism of Slots.tla for Apalache: inductive invariant of the slot bound
   for EVERY MaxSlots in 1..MaxMax and EVERY core assignment of N tasks, for executions of any length. *)
EXTENDS Integers, FiniteSets, Apalache

CONSTANTS
  \* @type: Int;
  N,
  \* @type: Int;
  MaxMax

VARIABLES
  \* @type: Int;
  max,
  \* @type: Int -> Int;
  cores,
  \* @type: Int -> Str;
  pc,
  \* @type: Int -> Int;
  held,
  \* @type: Int;
  mx,
  \* @type: Int;
  tokens

Tasks == 1..N
CInit == N = 6 /\ MaxMax = 6

\* @type: (Int -> Int, Set(Int)) => Int;
Sum(f, S) == ApaFoldSet(LAMBDA acc, x: acc + f[x], 0, S)

Init == /\ max \in 1..MaxMax
        /\ cores \in [Tasks -> 1..MaxMax] /\ \A t \in Tasks : cores[t] <= max
        /\ pc = [t \in Tasks |-> "idle"]
        /\ held = [t \in Tasks |-> 0]
        /\ mx = 0 /\ tokens = 0

Lock(t) == /\ pc[t] = "idle" /\ mx = 0 /\ mx' = t /\ pc' = [pc EXCEPT ![t] = "locked"] /\ UNCHANGED <<max, cores, held, tokens>>
Deposit(t) == /\ pc[t] = "locked" /\ held[t] < cores[t] /\ tokens < max
              /\ held' = [held EXCEPT ![t] = @ + 1] /\ tokens' = tokens + 1 /\ UNCHANGED <<max, cores, pc, mx>>
Unlock(t) == /\ pc[t] = "locked" /\ held[t] = cores[t] /\ mx' = 0 /\ pc' = [pc EXCEPT ![t] = "acquired"] /\ UNCHANGED <<max, cores, held, tokens>>
CmdStart(t) == /\ pc[t] = "acquired" /\ pc' = [pc EXCEPT ![t] = "running"] /\ UNCHANGED <<max, cores, held, mx, tokens>>
CmdEnd(t) == /\ pc[t] = "running" /\ pc' = [pc EXCEPT ![t] = "ended"] /\ UNCHANGED <<max, cores, held, mx, tokens>>
ReleaseOne(t) == /\ pc[t] = "ended" /\ held[t] > 0 /\ held' = [held EXCEPT ![t] = @ - 1] /\ tokens' = tokens - 1 /\ UNCHANGED <<max, cores, pc, mx>>
Finish(t) == /\ pc[t] = "ended" /\ held[t] = 0 /\ pc' = [pc EXCEPT ![t] = "done"] /\ UNCHANGED <<max, cores, held, mx, tokens>>
Next == \E t \in Tasks : Lock(t) \/ Deposit(t) \/ Unlock(t) \/ CmdStart(t) \/ CmdEnd(t) \/ ReleaseOne(t) \/ Finish(t)

Pcs == {"idle", "locked", "acquired", "running", "ended", "done"}
RunningSet == {t \in Tasks : pc[t] = "running"}
C06_Bound == Sum(cores, RunningSet) <= max

IndInv ==
  /\ max \in 1..MaxMax /\ mx \in 0..N /\ tokens \in 0..MaxMax
  /\ cores \in [Tasks -> 1..MaxMax] /\ \A t \in Tasks : cores[t] <= max
  /\ pc \in [Tasks -> Pcs]
  /\ held \in [Tasks -> 0..MaxMax] /\ \A t \in Tasks : held[t] <= cores[t]
  /\ tokens = Sum(held, Tasks) /\ tokens <= max
  /\ \A t \in Tasks : pc[t] \in {"acquired", "running"} => held[t] = cores[t]
  /\ \A t \in Tasks : pc[t] \in {"idle", "done"} => held[t] = 0
  /\ \A t \in Tasks : (pc[t] = "locked") <=> (mx = t)
IndInit == IndInv
=============================================================================
