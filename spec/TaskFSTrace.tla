---------------------------- MODULE TaskFSTrace ----------------------------
(***************************************************************************)
(* Histories recorded from the real binary - several runs of one workflow  *)
(* in the same directory, each possibly killed at a hook (VERIF_CRASH),    *)
(* with cleanup / deletion steps of the harness in between - replayed      *)
(* through the actions of TaskFS.  After every run the harness appends the *)
(* projected directory snapshot; TSnap requires it to equal the filesystem *)
(* state the specification predicts.  All TaskFS invariants are checked in *)
(* every state of the observed history.                                    *)
(***************************************************************************)
EXTENDS TaskFS

Trace == ndJsonDeserialize("trace.ndjson")
VARIABLE l
tvars == <<vars, l>>
Ev == Trace[l]
Is(e) == l <= Len(Trace) /\ Ev.e = e /\ l' = l + 1

TraceInit == Init /\ l = 1

\* a new history (fresh directory)
TReset == /\ Is("history")
          /\ run' = 1 /\ phase' = "running" /\ NewRunState
          /\ final' = [f \in UserPre |-> [c |-> "complete", by |-> "user", ok |-> TRUE]]
          /\ tmp' = [t \in Tasks |-> <<>>] /\ tdir' = {} /\ audit' = <<>> /\ extraf' = {}
          /\ startfinal' = UserPre /\ leftover' = {} /\ dirty' = FALSE /\ ver' = [f \in AllOuts |-> 0]

T1(e, A(_)) == Is(e) /\ A(Ev.task)

\* the command ran to its end: all its writes happened inside the temp dir (not hooked one by one)
CmdAll(t) == /\ Running /\ ts[t] = "cmd"
             /\ tmp' = [tmp EXCEPT ![t] = [x \in {Writes(t)[i][2] : i \in DOMAIN Writes(t)} |->
                                              LET is == {i \in DOMAIN Writes(t) : Writes(t)[i][2] = x}
                                              IN  Writes(t)[CHOOSE i \in is : \A j \in is : j <= i][1]] @@ @]
             /\ wi' = [wi EXCEPT ![t] = Len(Writes(t))]
             /\ IF CmdOK(t) /\ InputsPresent(t) THEN Set(t, "cmdok") /\ UNCHANGED phase
                                                ELSE phase' = "exit1" /\ UNCHANGED ts
             /\ UNCHANGED <<run, rn, au, mem, final, tdir, audit, extraf, execs, startfinal, leftover, dirty, ver>>

TCmdEnd == Is("cmd.end") /\ CmdAll(Ev.task) /\ phase' = "running"
TCmdFail == Is("fail.cmd") /\ CmdAll(Ev.task) /\ phase' = "exit1"
TTmpFail == Is("fail.tmp") /\ ExTmpCheck(Ev.task) /\ phase' = "exit1"
TTmpOk == Is("tmpok") /\ ExTmpCheck(Ev.task) /\ phase' = "running"
TSkip == Is("skip") /\ ExOutCheck(Ev.task) /\ ts'[Ev.task] = "done"
TNoSkip == Is("noskip") /\ ExOutCheck(Ev.task) /\ ts'[Ev.task] = "mkdir"
TEnsure == Is("ensure") /\ Ensure(Ev.task) /\ phase' = "running"
TEnsureFail == Is("fail.ensure") /\ Ensure(Ev.task) /\ phase' = "exit1"
TRename == Is("rename") /\ Rename(Ev.task, Ev.out) /\ phase' = "running"
TExtra == Is("extra") /\ MoveExtra(Ev.task) /\ Ev.name \in extraf'
TExtraEnd == Is("extra.end") /\ MoveExtra(Ev.task) /\ ts'[Ev.task] = "rmtmp"

TCrash == Is("crash") /\ Crash
TCleanup == Is("cleanup") /\ Cleanup
TDelete == Is("delete") /\ DeleteOut(Ev.file)
TRestart == Is("restart") /\ Restart
TExit == Is("exit") /\ (Ev.rc # 0 <=> phase = "exit1") /\ (Ev.completed <=> phase = "returned") /\ UNCHANGED vars

\* directory snapshot taken by the harness = filesystem state of the specification
KindOf(f) == final[f].c
TSnap ==
  /\ Is("snap")
  /\ ToSet(Ev.final) = DOMAIN final
  /\ \A f \in DOMAIN final : final[f].by # "user" => Ev.kind[f] = KindOf(f)
  /\ ToSet(Ev.tdirs) = tdir
  /\ \A t \in tdir : ToSet(Ev.tmpfiles[t]) = DOMAIN tmp[t]
  /\ ToSet(Ev.extras) = extraf
  /\ ToSet(Ev.audits) = DOMAIN audit
  /\ \A f \in DOMAIN audit : Ev.auditrec[f] = audit[f]      \* lineage on disk = lineage of the specification
  /\ UNCHANGED vars

TraceNext ==
  \/ TReset \/ TCmdEnd \/ TCmdFail \/ TTmpFail \/ TTmpOk \/ TSkip \/ TNoSkip \/ TEnsure \/ TEnsureFail \/ TRename
  \/ TExtra \/ TExtraEnd \/ TCrash \/ TCleanup \/ TDelete \/ TRestart \/ TExit \/ TSnap
  \/ T1("exec.begin", ExBegin) \/ T1("cmd.start", ExMkdir) \/ (Is("audit") /\ AuditWrite(Ev.task, Ev.out))
  \/ T1("rmtmp", RmTmp) \/ T1("done", DoneFwd)
  \/ (Is("run.return") /\ MainReturn)

TraceSpec == TraceInit /\ [][TraceNext]_tvars

ASSUME TLCSet(1, 0)
HW == IF l > TLCGet(1) THEN TLCSet(1, l) ELSE TRUE
Accepted == IF TLCGet(1) = Len(Trace) + 1 THEN TRUE
            ELSE /\ PrintT(<<"REJECTED at line", TLCGet(1), Trace[TLCGet(1)]>>)
                 /\ FALSE
=============================================================================
