----------------------------- MODULE Combinator -----------------------------
(***************************************************************************)
(* Concurrency of FileCombinator / ParamCombinator (collect-then-send):    *)
(* Run reads its in-ports ONE AFTER THE OTHER, each until it is closed,    *)
(* computes the product, and then one sender goroutine per out-port sends  *)
(* that port's column while a downstream consumer reads the out-ports in   *)
(* lock-step.  Upstreams: Shared = FALSE - one independent source per      *)
(* in-port; Shared = TRUE - ONE source whose out-port is connected to all  *)
(* in-ports (each item is sent to every port before the next item).        *)
(* Claim of C19: dead-lock free for independent upstreams of any length;   *)
(* with a shared upstream only up to the buffer size (TLC finds the        *)
(* dead-lock beyond it: this is the boundary stated in the property).      *)
(***************************************************************************)
EXTENDS Integers, Sequences, FiniteSets, TLC

CONSTANTS NPorts, Len1, BufSize, Shared

Ports == 1..NPorts
VARIABLES inq,      \* in-port -> number of items buffered
          insent,   \* port -> items the upstream has sent to it so far
          inclosed, \* in-ports closed by their upstream
          curport,  \* port the combinator is currently draining (NPorts+1 = collecting finished)
          got,      \* port -> items collected
          outsent,  \* out-port -> tuples sent so far
          outq,     \* out-port -> tuples buffered downstream
          consumed, \* tuples the lock-step consumer has taken completely
          cpos      \* consumer: next port to read within the current tuple
vars == <<inq, insent, inclosed, curport, got, outsent, outq, consumed, cpos>>

Total == IF NPorts = 1 THEN Len1 ELSE IF NPorts = 2 THEN Len1 * Len1 ELSE Len1 * Len1 * Len1

Init == /\ inq = [p \in Ports |-> 0] /\ insent = [p \in Ports |-> 0] /\ inclosed = {} /\ curport = 1
        /\ got = [p \in Ports |-> 0] /\ outsent = [p \in Ports |-> 0] /\ outq = [p \in Ports |-> 0]
        /\ consumed = 0 /\ cpos = 1

\* independent sources: each sends its own items; shared source: item k goes to port 1, then 2, ... then item k+1
CanSend(p) == /\ insent[p] < Len1 /\ inq[p] < BufSize
              /\ Shared => /\ \A r \in Ports : r < p => insent[r] = insent[p] + 1
                           /\ \A r \in Ports : r > p => insent[r] = insent[p]
UpSend(p) == /\ CanSend(p) /\ inq' = [inq EXCEPT ![p] = @ + 1] /\ insent' = [insent EXCEPT ![p] = @ + 1]
             /\ UNCHANGED <<inclosed, curport, got, outsent, outq, consumed, cpos>>
UpClose(p) == /\ p \notin inclosed /\ insent[p] = Len1 /\ (Shared => \A r \in Ports : insent[r] = Len1)
              /\ inclosed' = inclosed \cup {p}
              /\ UNCHANGED <<inq, insent, curport, got, outsent, outq, consumed, cpos>>
Collect == /\ curport <= NPorts /\ inq[curport] > 0
           /\ inq' = [inq EXCEPT ![curport] = @ - 1] /\ got' = [got EXCEPT ![curport] = @ + 1]
           /\ UNCHANGED <<insent, inclosed, curport, outsent, outq, consumed, cpos>>
NextPort == /\ curport <= NPorts /\ inq[curport] = 0 /\ curport \in inclosed /\ curport' = curport + 1
            /\ UNCHANGED <<inq, insent, inclosed, got, outsent, outq, consumed, cpos>>
OutSend(p) == /\ curport = NPorts + 1 /\ outsent[p] < Total /\ outq[p] < BufSize
              /\ outsent' = [outsent EXCEPT ![p] = @ + 1] /\ outq' = [outq EXCEPT ![p] = @ + 1]
              /\ UNCHANGED <<inq, insent, inclosed, curport, got, consumed, cpos>>
Consume == /\ outq[cpos] > 0 /\ outq' = [outq EXCEPT ![cpos] = @ - 1]
           /\ IF cpos = NPorts THEN cpos' = 1 /\ consumed' = consumed + 1 ELSE cpos' = cpos + 1 /\ consumed' = consumed
           /\ UNCHANGED <<inq, insent, inclosed, curport, got, outsent>>
Finished == curport = NPorts + 1 /\ consumed = Total /\ \A p \in Ports : outsent[p] = Total
Next == (\E p \in Ports : UpSend(p) \/ UpClose(p) \/ OutSend(p)) \/ Collect \/ NextPort \/ Consume \/ (Finished /\ UNCHANGED vars)
Spec == Init /\ [][Next]_vars /\ WF_vars(Next)
C19_AllCollected == curport = NPorts + 1 => \A p \in Ports : got[p] = Len1
C19_Finishes == <>Finished
=============================================================================
