-------------------------------- MODULE Join --------------------------------
(***************************************************************************)
(* Sub-stream join: StreamToSubStream hands ONE carrier IP downstream      *)
(* whose SubStream is its own in-port; the consuming process receives the  *)
(* carrier and NewTask drains that in-port until it is closed, then forms  *)
(* exactly one task whose {i:x|join:SEP} placeholder lists the members in  *)
(* arrival order.  Producers (one or two upstream processes feeding the    *)
(* sub-stream port) send through a channel of capacity BufSize.            *)
(***************************************************************************)
EXTENDS Integers, Sequences, FiniteSets, TLC, SequencesExt

CONSTANTS BufSize, L1, L2    \* number of items of producer 1 and of producer 2 (L2 = 99: a single producer)
Lens == IF L2 = 99 THEN <<L1>> ELSE <<L1, L2>>

Prods == DOMAIN Lens
Item(p, i) == <<p, i>>
VARIABLES sentn,      \* producer -> number of items sent
          closedp,    \* producers that have closed their connection
          q,          \* the sub-stream channel (in-port of StreamToSubStream)
          carrier,    \* "no" | "sent" | "got"   carrier IP on its way to the consumer
          members,    \* files drained by NewTask so far
          task        \* "none" | "formed" | "ran"
vars == <<sentn, closedp, q, carrier, members, task>>

Init == sentn = [p \in Prods |-> 0] /\ closedp = {} /\ q = <<>> /\ carrier = "no" /\ members = <<>> /\ task = "none"

Send(p) == /\ sentn[p] < Lens[p] /\ Len(q) < BufSize
           /\ q' = Append(q, Item(p, sentn[p] + 1)) /\ sentn' = [sentn EXCEPT ![p] = @ + 1]
           /\ UNCHANGED <<closedp, carrier, members, task>>
Close(p) == /\ sentn[p] = Lens[p] /\ p \notin closedp /\ closedp' = closedp \cup {p}
            /\ UNCHANGED <<sentn, q, carrier, members, task>>
SendCarrier == carrier = "no" /\ carrier' = "sent" /\ UNCHANGED <<sentn, closedp, q, members, task>>
RecvCarrier == carrier = "sent" /\ carrier' = "got" /\ UNCHANGED <<sentn, closedp, q, members, task>>
Drain == /\ carrier = "got" /\ task = "none" /\ q # <<>>
         /\ members' = Append(members, Head(q)) /\ q' = Tail(q)
         /\ UNCHANGED <<sentn, closedp, carrier, task>>
Form == /\ carrier = "got" /\ task = "none" /\ q = <<>> /\ closedp = Prods
        /\ task' = "formed" /\ UNCHANGED <<sentn, closedp, q, carrier, members>>
Run == task = "formed" /\ task' = "ran" /\ UNCHANGED <<sentn, closedp, q, carrier, members>>
Done == task = "ran" /\ UNCHANGED vars
Next == (\E p \in Prods : Send(p) \/ Close(p)) \/ SendCarrier \/ RecvCarrier \/ Drain \/ Form \/ Run \/ Done
Spec == Init /\ [][Next]_vars /\ WF_vars(Next)

Of(p) == SelectSeq(members, LAMBDA x : x[1] = p)
\* C18: per producer the members are exactly what it sent so far minus what is still buffered, in order
C18_Order == \A p \in Prods : \A i \in DOMAIN Of(p) : Of(p)[i] = Item(p, i)
\* C18: when the task is formed it has the WHOLE sub-stream, each file once
C18_Whole == task # "none" => \A p \in Prods : Len(Of(p)) = Lens[p]
C18_Once == \A i, j \in DOMAIN members : i # j => members[i] # members[j]
\* C18: the task runs once per sub-stream and eventually (also beyond the buffer size)
C18_Runs == <>(task = "ran")
=============================================================================
