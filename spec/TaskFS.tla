------------------------------- MODULE TaskFS -------------------------------
(***************************************************************************)
(* Task execution on the filesystem at the grain of Task.Execute /         *)
(* FinalizePaths (task.go), with the environment: command failure modes,   *)
(* SIGKILL of the process group at any instant (Crash), manual cleanup of  *)
(* temp directories, deletion of outputs by the user, and re-runs.  The    *)
(* filesystem is the only state that survives a run.                       *)
(*                                                                         *)
(* Tasks and their dependencies come from fs.json, which the harness       *)
(* derives from the wfspec and Expected(G) of Flow.tla.  Channels are      *)
(* abstracted: a task may begin once the producers of all its inputs have  *)
(* been forwarded in the current run.                                      *)
(***************************************************************************)
EXTENDS Integers, Sequences, FiniteSets, TLC, Json, SequencesExt

CONSTANTS MaxRuns,   \* length bound of run histories
          Weak,      \* weakening flags: "NoTmpCheck", "NoSkipCheck", "IgnoreCmdError", "WriteFinalDirect",
                     \*   "NoEnsureOutputs", "RenameBeforeErrCheck", "NoAuditLoad", "AllOutputsSkip"
          Env        \* subset of {"crash", "cleanup", "delete", "rerun"}: which environment actions are on

FS == JsonDeserialize("fs.json")
TaskRecs == ToSet(FS.tasks)                 \* [id, ins, outs, extras, srcins]
Tasks == {t.id : t \in TaskRecs}
TRTab == [t \in Tasks |-> CHOOSE r \in TaskRecs : r.id = t]
Outs(t)   == TRTab[t].outs                   \* sequence of output ids
Ins(t)    == TRTab[t].ins                    \* sequence of input ids (outputs of other tasks or sources)
Extras(t) == TRTab[t].extras                 \* sequence of extra file names
OutSet(t) == ToSet(Outs(t))
AllOuts   == UNION {OutSet(t) : t \in Tasks}
ProducerTab == [f \in AllOuts |-> CHOOSE t \in Tasks : f \in OutSet(t)]
Producer(f) == ProducerTab[f]
IsSrc(f)  == f \notin AllOuts
Deps(t)   == {Producer(f) : f \in {x \in ToSet(Ins(t)) : ~IsSrc(x)}}
Fault(t)  == IF t \in DOMAIN FS.faults THEN FS.faults[t] ELSE "none"

\* the writes a command performs, in order; a failure mode cuts the list
FullWrites(t) == FlattenSeq([i \in DOMAIN Outs(t) |-> << <<"partial", Outs(t)[i]>>, <<"complete", Outs(t)[i]>> >>])
                 \o [i \in DOMAIN Extras(t) |-> <<"extra", Extras(t)[i]>>]
Writes(t) == CASE Fault(t) = "exit_before_write" -> <<>>
               [] Fault(t) \in {"exit_after_partial", "sigkill_self", "sigterm_self", "sigint_self", "sigkill_shell"} -> <<FullWrites(t)[1]>>
               [] Fault(t) = "skip_output" -> SelectSeq(FullWrites(t), LAMBDA w : w[2] # Last(Outs(t)))
               [] OTHER -> FullWrites(t)
CmdOK(t) == Fault(t) \in {"none", "skip_output"}

UserPre == ToSet(FS.pre)                     \* files placed by the user before the first run (no audit file)
EMPTY == [task |-> "", ups |-> <<>>]         \* audit record of a file without audit file
RECURSIVE Lin(_)
Lin(t) == [task |-> t, ups |-> [i \in DOMAIN Ins(t) |-> IF IsSrc(Ins(t)[i]) THEN EMPTY ELSE Lin(Producer(Ins(t)[i]))]]
LinTab == [t \in Tasks |-> Lin(t)]
RECURSIVE NoUserUpstream(_)
NoUserUpstream(t) == \A i \in DOMAIN Ins(t) : IsSrc(Ins(t)[i]) \/ (Ins(t)[i] \notin UserPre /\ NoUserUpstream(Producer(Ins(t)[i])))

VARIABLES
  run, phase,      \* phase: "running" | "returned" | "exit1" | "crashed"
  ts,              \* task -> pc
  wi,              \* task -> number of command writes done
  rn,              \* task -> set of outputs renamed so far (this run)
  au,              \* task -> set of outputs whose audit file was written (this run)
  mem,             \* in-memory audit record of every file IP of this run
  final,           \* file id -> [c, by, ok]   (persistent)
  tmp,             \* task -> function rel-name -> content kind: files inside the task's temp dir (persistent)
  tdir,            \* tasks whose temp directory exists (persistent)
  audit,           \* file id -> audit record on disk (persistent)
  extraf,          \* extra files moved to the working directory (persistent)
  execs,           \* ghost: tasks whose command started in this run
  startfinal,      \* ghost: files final when this run started
  leftover,        \* ghost: tasks whose temp dir existed when this run started
  dirty,           \* ghost: some run was interrupted inside a publication window (F7) / user deleted files
  ver              \* ghost: file id -> number of times something was put at the final path

vars == <<run, phase, ts, wi, rn, au, mem, final, tmp, tdir, audit, extraf, execs, startfinal, leftover, dirty, ver>>

Pcs == {"wait", "begun", "tmpok", "mkdir", "cmd", "cmdok", "audit", "ensured", "rename", "extra", "rmtmp", "fin", "done"}

NewRunState == /\ ts' = [t \in Tasks |-> "wait"]
               /\ wi' = [t \in Tasks |-> 0]
               /\ rn' = [t \in Tasks |-> {}]
               /\ au' = [t \in Tasks |-> {}]
               /\ mem' = [f \in AllOuts |-> EMPTY]
               /\ execs' = {}
Init == /\ run = 1 /\ phase = "running"
        /\ ts = [t \in Tasks |-> "wait"] /\ wi = [t \in Tasks |-> 0] /\ rn = [t \in Tasks |-> {}] /\ au = [t \in Tasks |-> {}]
        /\ mem = [f \in AllOuts |-> EMPTY]
        /\ final = [f \in UserPre |-> [c |-> "complete", by |-> "user", ok |-> TRUE]] /\ tmp = [t \in Tasks |-> <<>>] /\ tdir = {} /\ audit = <<>> /\ extraf = {}
        /\ execs = {} /\ startfinal = UserPre /\ leftover = {} /\ dirty = FALSE
        /\ ver = [f \in AllOuts |-> 0]

Running == phase = "running"
Set(t, pc) == ts' = [ts EXCEPT ![t] = pc]
Forwarded(t) == ts[t] = "done"
Has(f, x) == x \in DOMAIN f

\* --- Task.Execute ------------------------------------------------------------------------
\* NewTask: out-IPs are created; an existing file gets its audit record loaded from disk
ExBegin(t) ==
  /\ Running /\ ts[t] = "wait" /\ \A d \in Deps(t) : Forwarded(d)
  /\ Set(t, "begun")
  /\ mem' = [f \in AllOuts |-> IF f \in OutSet(t) /\ Has(final, f) /\ "NoAuditLoad" \notin Weak
                               THEN (IF Has(audit, f) THEN audit[f] ELSE EMPTY) ELSE mem[f]]
  /\ UNCHANGED <<run, phase, wi, rn, au, final, tmp, tdir, audit, extraf, execs, startfinal, leftover, dirty, ver>>

ExTmpCheck(t) ==    \* temp dir exists -> Fail
  /\ Running /\ ts[t] = "begun"
  /\ IF t \in tdir /\ "NoTmpCheck" \notin Weak
     THEN phase' = "exit1" /\ UNCHANGED ts
     ELSE Set(t, "tmpok") /\ UNCHANGED phase
  /\ UNCHANGED <<run, wi, rn, au, mem, final, tmp, tdir, audit, extraf, execs, startfinal, leftover, dirty, ver>>

SkipCond(t) == IF "AllOutputsSkip" \in Weak THEN \A o \in OutSet(t) : Has(final, o)
               ELSE \E o \in OutSet(t) : Has(final, o)
ExOutCheck(t) ==    \* any declared output exists -> Done without executing
  /\ Running /\ ts[t] = "tmpok"
  /\ IF SkipCond(t) /\ "NoSkipCheck" \notin Weak THEN Set(t, "done") ELSE Set(t, "mkdir")
  /\ UNCHANGED <<run, phase, wi, rn, au, mem, final, tmp, tdir, audit, extraf, execs, startfinal, leftover, dirty, ver>>

ExMkdir(t) ==       \* createDirs (an adopted temp dir keeps its content)
  /\ Running /\ ts[t] = "mkdir"
  /\ tdir' = tdir \cup {t}
  /\ Set(t, "cmd") /\ execs' = execs \cup {t}
  /\ UNCHANGED <<run, phase, wi, rn, au, mem, final, tmp, audit, extraf, startfinal, leftover, dirty, ver>>

\* the command writes its next file inside the temp dir (a weakened model writes at the final path)
CmdWrite(t) ==
  /\ Running /\ ts[t] = "cmd" /\ wi[t] < Len(Writes(t))
  /\ LET w == Writes(t)[wi[t] + 1] IN
     IF "WriteFinalDirect" \in Weak /\ w[1] # "extra"
     THEN /\ final' = (w[2] :> [c |-> w[1], by |-> t, ok |-> FALSE]) @@ final
          /\ ver' = [ver EXCEPT ![w[2]] = @ + 1]
          /\ tmp' = tmp
     ELSE /\ tmp' = [tmp EXCEPT ![t] = (w[2] :> w[1]) @@ @]
          /\ UNCHANGED <<final, ver>>
  /\ wi' = [wi EXCEPT ![t] = @ + 1]
  /\ UNCHANGED <<run, phase, ts, rn, au, mem, tdir, audit, extraf, execs, startfinal, leftover, dirty>>

InputsPresent(t) == \A i \in DOMAIN Ins(t) : IsSrc(Ins(t)[i]) \/ Has(final, Ins(t)[i])   \* cat of a missing input fails
CmdEnd(t) ==        \* non-zero exit / signal -> Fail -> os.Exit(1)
  /\ Running /\ ts[t] = "cmd" /\ wi[t] = Len(Writes(t))
  /\ IF (CmdOK(t) /\ InputsPresent(t)) \/ "IgnoreCmdError" \in Weak
     THEN Set(t, "cmdok") /\ UNCHANGED phase
     ELSE phase' = "exit1" /\ UNCHANGED ts
  /\ UNCHANGED <<run, wi, rn, au, mem, final, tmp, tdir, audit, extraf, execs, startfinal, leftover, dirty, ver>>

\* writeAuditLogs: the record (with the in-memory records of the inputs) goes to <final path>.audit.json
AuditWrite(t, o) ==     \* one audit file per output, written one after the other (map order)
  /\ Running /\ ts[t] = "cmdok" /\ o \in OutSet(t) \ au[t]
  /\ LET rec == [task |-> t, ups |-> [i \in DOMAIN Ins(t) |-> IF IsSrc(Ins(t)[i]) THEN EMPTY ELSE mem[Ins(t)[i]]]] IN
     /\ mem' = [mem EXCEPT ![o] = rec]
     /\ audit' = (o :> rec) @@ audit
  /\ au' = [au EXCEPT ![t] = @ \cup {o}]
  /\ ts' = IF au'[t] = OutSet(t) THEN [ts EXCEPT ![t] = "audit"] ELSE ts
  /\ UNCHANGED <<run, phase, wi, rn, final, tmp, tdir, extraf, execs, startfinal, leftover, dirty, ver>>

Ensure(t) ==        \* ensureAllOutputsExist
  /\ Running /\ (ts[t] = "audit" \/ (ts[t] = "cmdok" /\ OutSet(t) = {}))
  /\ IF (\A o \in OutSet(t) : Has(tmp[t], o)) \/ "NoEnsureOutputs" \in Weak \/ "WriteFinalDirect" \in Weak
     THEN Set(t, "rename") /\ UNCHANGED phase
     ELSE phase' = "exit1" /\ UNCHANGED ts
  /\ UNCHANGED <<run, wi, rn, au, mem, final, tmp, tdir, audit, extraf, execs, startfinal, leftover, dirty, ver>>

Rename(t, o) ==     \* os.Rename(tmp/o, o) - one output at a time, map order
  /\ Running /\ ts[t] = "rename" /\ o \in OutSet(t) \ rn[t]
  /\ IF Has(tmp[t], o)
     THEN /\ final' = (o :> [c |-> tmp[t][o], by |-> t, ok |-> CmdOK(t)]) @@ final
          /\ tmp' = [tmp EXCEPT ![t] = [x \in DOMAIN @ \ {o} |-> @[x]]]
          /\ ver' = [ver EXCEPT ![o] = @ + 1]
          /\ phase' = phase
     ELSE /\ phase' = (IF "WriteFinalDirect" \in Weak THEN phase ELSE "exit1")   \* rename error -> Fail
          /\ UNCHANGED <<final, tmp, tdir, ver>>
  /\ rn' = [rn EXCEPT ![t] = @ \cup {o}]
  /\ ts' = IF rn'[t] = OutSet(t) /\ phase' = "running" THEN [ts EXCEPT ![t] = "extra"] ELSE ts
  /\ UNCHANGED <<run, wi, au, mem, tdir, audit, extraf, execs, startfinal, leftover, dirty>>

MoveExtra(t) ==     \* remaining files are moved out one by one
  /\ Running /\ ts[t] = "extra"
  /\ IF DOMAIN tmp[t] = {}
     THEN Set(t, "rmtmp") /\ UNCHANGED <<tmp, tdir, extraf>>
     ELSE \E x \in DOMAIN tmp[t] :
            /\ extraf' = extraf \cup {x}
            /\ tmp' = [tmp EXCEPT ![t] = [y \in DOMAIN @ \ {x} |-> @[y]]]
            /\ UNCHANGED ts
  /\ UNCHANGED <<run, phase, wi, rn, au, mem, final, tdir, audit, execs, startfinal, leftover, dirty, ver>>

RmTmp(t) ==
  /\ Running /\ ts[t] = "rmtmp"
  /\ tmp' = [tmp EXCEPT ![t] = <<>>] /\ tdir' = tdir \ {t}
  /\ Set(t, "fin")
  /\ UNCHANGED <<run, phase, wi, rn, au, mem, final, audit, extraf, execs, startfinal, leftover, dirty, ver>>

DoneFwd(t) ==       \* Done is taken by the Run loop, outputs are sent downstream
  /\ Running /\ ts[t] = "fin"
  /\ Set(t, "done")
  /\ UNCHANGED <<run, phase, wi, rn, au, mem, final, tmp, tdir, audit, extraf, execs, startfinal, leftover, dirty, ver>>

MainReturn ==
  /\ Running /\ \A t \in Tasks : ts[t] = "done"
  /\ phase' = "returned"
  /\ UNCHANGED <<run, ts, wi, rn, au, mem, final, tmp, tdir, audit, extraf, execs, startfinal, leftover, dirty, ver>>

\* --- environment -------------------------------------------------------------------------
\* F7: between the first and the last publication step (rename of outputs, move of extra files) of a task
InPubWindow(t) == \/ ts[t] = "rename" /\ rn[t] # {}
                  \/ ts[t] = "extra" /\ DOMAIN tmp[t] # {}
Crash ==            \* SIGKILL of the process group: memory gone, filesystem kept
  /\ "crash" \in Env /\ Running /\ run < MaxRuns
  /\ phase' = "crashed"
  /\ dirty' = (dirty \/ \E t \in Tasks : InPubWindow(t))
  /\ UNCHANGED <<run, ts, wi, rn, au, mem, final, tmp, tdir, audit, extraf, execs, startfinal, leftover, ver>>

Cleanup ==          \* the user removes leftover temp directories
  /\ "cleanup" \in Env /\ phase \in {"crashed", "exit1"} /\ tdir # {}
  /\ tmp' = [t \in Tasks |-> <<>>] /\ tdir' = {}
  /\ UNCHANGED <<run, phase, ts, wi, rn, au, mem, final, audit, extraf, execs, startfinal, leftover, dirty, ver>>

DeleteOut(f) ==     \* the user deletes all outputs of a task (and everything downstream) between runs
  /\ "delete" \in Env /\ phase = "returned" /\ run < MaxRuns /\ Has(final, f)
  /\ phase' = "idle"
  /\ LET RECURSIVE Down(_)
         Down(S) == LET T == S \cup UNION {OutSet(t) : t \in {u \in Tasks : ToSet(Ins(u)) \cap S # {}}}
                    IN IF T = S THEN S ELSE Down(T)
         gone == Down(OutSet(Producer(f)))
     IN final' = [x \in DOMAIN final \ gone |-> final[x]]
  /\ UNCHANGED <<run, ts, wi, rn, au, mem, tmp, tdir, audit, extraf, execs, startfinal, leftover, dirty, ver>>

Restart ==
  /\ "rerun" \in Env /\ phase \in {"crashed", "exit1", "returned", "idle"} /\ run < MaxRuns
  /\ run' = run + 1 /\ phase' = "running"
  /\ NewRunState
  /\ startfinal' = DOMAIN final
  /\ leftover' = tdir
  /\ UNCHANGED <<final, tmp, tdir, audit, extraf, dirty, ver>>

Stutter == phase # "running" /\ UNCHANGED vars

Next == \/ \E t \in Tasks : \/ ExBegin(t) \/ ExTmpCheck(t) \/ ExOutCheck(t) \/ ExMkdir(t) \/ CmdWrite(t) \/ CmdEnd(t)
                            \/ Ensure(t) \/ MoveExtra(t) \/ RmTmp(t) \/ DoneFwd(t)
                            \/ \E o \in AllOuts : Rename(t, o) \/ AuditWrite(t, o)
        \/ MainReturn \/ Crash \/ Cleanup \/ Restart \/ Stutter
        \/ \E f \in AllOuts : DeleteOut(f)

Spec == Init /\ [][Next]_vars

(************************ properties ***************************************)
\* C01: whatever sits at a final path was written completely by a command that succeeded
C01_Atomic == \A f \in DOMAIN final : final[f].c = "complete" /\ final[f].ok
\* C01: final paths change only through the rename of a finished task (action property)
C01_OnlyRename == [][\A f \in AllOuts : (Has(final', f) /\ (~Has(final, f) \/ final'[f] # final[f]))
                        => \E t \in Tasks : ts[t] = "rename" /\ f \in OutSet(t)]_vars
\* C01: unfinished work lives only in the task's own temp dir
C01_Confined == \A t \in Tasks : (ts[t] \in {"mkdir", "cmd", "cmdok", "audit"} /\ phase \in {"running", "crashed", "exit1"})
                     => \A o \in OutSet(t) : Has(final, o) => o \in startfinal

\* C02: a task whose outputs existed when the run started is not executed, its files are not touched
C02_NoReexec == \A t \in Tasks : OutSet(t) \cap startfinal # {} => t \notin execs
C02_Untouched == [][\A f \in AllOuts : (Has(final, f) /\ Has(final', f) /\ phase = "running") => (final'[f] = final[f] /\ ver'[f] = ver[f])]_vars

\* C03: a run that starts without leftovers and returns has produced everything, completely;
\* known window F7: an earlier run was killed between the first and the last publication step of a task
Converged == \A t \in Tasks : /\ \A o \in OutSet(t) : Has(final, o) /\ final[o].c = "complete"
                              /\ (\A o \in OutSet(t) : o \notin UserPre) => ToSet(Extras(t)) \subseteq extraf
C03_Converge == (phase = "returned" /\ leftover = {}) => (Converged \/ dirty)
C03_NoAdopt == \A t \in leftover : t \notin execs
C03_LeftoverStops == phase = "returned" => leftover = {}

\* C09: failure is never silent, outputs of the failing task never become final
Failing == {t \in Tasks : ~CmdOK(t) \/ Fault(t) = "skip_output"}
C09_NoSilent == phase = "returned" => \A t \in Failing : t \notin execs
C09_NotPublished == \A t \in Failing : \A o \in OutSet(t) : Has(final, o) => final[o].by # t

\* C10/C11: the audit record next to every output finalized by a task names the full lineage,
\* also when upstream records were loaded from disk in a later run
C11_Lineage == dirty \/ \A f \in DOMAIN final : (final[f].by # "user" /\ NoUserUpstream(Producer(f))) => (Has(audit, f) /\ audit[f] = LinTab[Producer(f)])
C10_HasAudit == \A f \in DOMAIN final : final[f].by # "user" => Has(audit, f)
=============================================================================
