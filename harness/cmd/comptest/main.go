// comptest runs one bundled scipipe component inside a tiny workflow (independent sources per port, a lock-step
// collector downstream, both written against the public component API) and prints what arrived as JSON.
//
//	comptest <case.json>
package main

import (
	"encoding/json"
	"fmt"
	"io/ioutil"
	"os"
	"path/filepath"
	"sort"
	"time"

	sp "github.com/scipipe/scipipe"
	"github.com/scipipe/scipipe/components"
)

type Case struct {
	Op       string              `json:"op"`
	Streams  map[string][]string `json:"streams"`
	Shared   bool                `json:"shared"`
	Drop     []string            `json:"drop"`
	Path     string              `json:"path"`
	N        int                 `json:"n"`
	Files    []string            `json:"files"`
	Out      string              `json:"out"`
	Values   []string            `json:"values"`
	Patterns []string            `json:"patterns"`
	Command  string              `json:"command"`
	PaceMs   int                 `json:"pace_ms"`
}

// FileCollector receives one IP from each in-port in turn (lock-step) until a port is closed.
type FileCollector struct {
	sp.BaseProcess
	names  []string
	Tuples []map[string]string
	Extra  map[string]int // items that arrived on a port after another port was closed
}

func NewFileCollector(wf *sp.Workflow, name string, ports []string) *FileCollector {
	c := &FileCollector{BaseProcess: sp.NewBaseProcess(wf, name), names: ports, Extra: map[string]int{}}
	for _, p := range ports {
		c.InitInPort(c, p)
	}
	wf.AddProc(c)
	return c
}

func (c *FileCollector) Run() {
	open := map[string]bool{}
	for _, n := range c.names {
		open[n] = true
	}
	for {
		tuple := map[string]string{}
		closed := 0
		for _, n := range c.names {
			ip, ok := <-c.InPort(n).Chan
			if !ok {
				closed++
				continue
			}
			tuple[n] = ip.Path()
		}
		if closed > 0 {
			for n := range tuple {
				c.Extra[n]++
				for range c.InPort(n).Chan {
					c.Extra[n]++
				}
			}
			return
		}
		c.Tuples = append(c.Tuples, tuple)
		if paceMs > 0 { // a consumer slower than the producers
			time.Sleep(time.Duration(paceMs) * time.Millisecond)
		}
	}
}

var paceMs int

type ParamCollector struct {
	sp.BaseProcess
	names  []string
	Tuples []map[string]string
	Extra  map[string]int
}

func NewParamCollector(wf *sp.Workflow, name string, ports []string) *ParamCollector {
	c := &ParamCollector{BaseProcess: sp.NewBaseProcess(wf, name), names: ports, Extra: map[string]int{}}
	for _, p := range ports {
		c.InitInParamPort(c, p)
	}
	wf.AddProc(c)
	return c
}

func (c *ParamCollector) Run() {
	for {
		tuple := map[string]string{}
		closed := 0
		for _, n := range c.names {
			v, ok := <-c.InParamPort(n).Chan
			if !ok {
				closed++
				continue
			}
			tuple[n] = v
		}
		if closed > 0 {
			for n := range tuple {
				c.Extra[n]++
				for range c.InParamPort(n).Chan {
					c.Extra[n]++
				}
			}
			return
		}
		c.Tuples = append(c.Tuples, tuple)
	}
}

func sortedKeys(m map[string][]string) []string {
	ks := []string{}
	for k := range m {
		ks = append(ks, k)
	}
	sort.Strings(ks)
	return ks
}

func main() {
	raw, err := ioutil.ReadFile(os.Args[1])
	if err != nil {
		panic(err)
	}
	var c Case
	if err := json.Unmarshal(raw, &c); err != nil {
		panic(err)
	}
	paceMs = c.PaceMs
	logf, _ := os.Create("wf.log")
	sp.InitLog(ioutil.Discard, ioutil.Discard, ioutil.Discard, logf, logf, os.Stderr)
	wf := sp.NewWorkflowCustomLogFile("ct", 4, "wf2.log")
	result := map[string]interface{}{}
	ports := sortedKeys(c.Streams)
	switch c.Op {
	case "fcomb", "selector":
		var comb *components.FileCombinator
		var sel *components.IPSelectorSync
		if c.Op == "fcomb" {
			comb = components.NewFileCombinator(wf, "comb")
		} else {
			drop := map[string]bool{}
			for _, d := range c.Drop {
				drop[d] = true
			}
			sel = components.NewIPSelectorSync(wf, "sel", func(ip *sp.FileIP) bool { return !drop[filepath.Base(ip.Path())] })
		}
		col := NewFileCollector(wf, "col", ports)
		var shared *components.FileSource
		if c.Shared {
			shared = components.NewFileSource(wf, "src", c.Streams[ports[0]]...)
		}
		for _, p := range ports {
			src := shared
			if src == nil {
				src = components.NewFileSource(wf, "src_"+p, c.Streams[p]...)
			}
			if comb != nil {
				comb.In(p).From(src.Out())
				col.InPort(p).From(comb.Out(p))
			} else {
				sel.In(p).From(src.Out())
				col.InPort(p).From(sel.Out(p))
			}
		}
		wf.Run()
		result["tuples"], result["extra"] = col.Tuples, col.Extra
	case "pcomb":
		comb := components.NewParamCombinator(wf, "comb")
		col := NewParamCollector(wf, "col", ports)
		for _, p := range ports {
			src := components.NewParamSource(wf, "src_"+p, c.Streams[p]...)
			comb.InParam(p).From(src.Out())
			col.InParamPort(p).From(comb.OutParam(p))
		}
		wf.Run()
		result["tuples"], result["extra"] = col.Tuples, col.Extra
	case "splitmany": // several files through ONE splitter in one run
		src := components.NewFileSource(wf, "src", c.Files...)
		spl := components.NewFileSplitter(wf, "spl", c.N)
		col := NewFileCollector(wf, "col", []string{"in"})
		spl.InFile().From(src.Out())
		col.InPort("in").From(spl.OutSplitFile())
		wf.Run()
		result["tuples"] = col.Tuples
	case "split":
		src := components.NewFileSource(wf, "src", c.Path)
		spl := components.NewFileSplitter(wf, "spl", c.N)
		col := NewFileCollector(wf, "col", []string{"in"})
		spl.InFile().From(src.Out())
		col.InPort("in").From(spl.OutSplitFile())
		wf.Run()
		result["tuples"] = col.Tuples
	case "concat":
		src := components.NewFileSource(wf, "src", c.Files...)
		cat := components.NewConcatenator(wf, "cat", c.Out)
		col := NewFileCollector(wf, "col", []string{"in"})
		cat.In().From(src.Out())
		col.InPort("in").From(cat.Out())
		wf.Run()
		result["tuples"] = col.Tuples
	case "filesource":
		src := components.NewFileSource(wf, "src", c.Files...)
		col := NewFileCollector(wf, "col", []string{"in"})
		col.InPort("in").From(src.Out())
		wf.Run()
		result["tuples"] = col.Tuples
	case "glob":
		g := components.NewFileGlobber(wf, "glob", c.Patterns...)
		col := NewFileCollector(wf, "col", []string{"in"})
		col.InPort("in").From(g.Out())
		wf.Run()
		result["tuples"] = col.Tuples
	case "paramsource", "f2p", "c2p":
		col := NewParamCollector(wf, "col", []string{"in"})
		switch c.Op {
		case "paramsource":
			col.InParamPort("in").From(components.NewParamSource(wf, "src", c.Values...).Out())
		case "f2p":
			col.InParamPort("in").From(components.NewFileToParamsReader(wf, "src", c.Path).OutLine())
		case "c2p":
			col.InParamPort("in").From(components.NewCommandToParams(wf, "src", c.Command).OutParam())
		}
		wf.Run()
		result["tuples"] = col.Tuples
	default:
		fmt.Fprintln(os.Stderr, "unknown op")
		os.Exit(2)
	}
	b, _ := json.Marshal(result)
	fmt.Println("RESULT " + string(b))
}
