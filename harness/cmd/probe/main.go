// probe exposes pure functions of scipipe to the harness (one JSON request per line on stdin,
// one JSON answer per line on stdout).
//
//	{"op":"audit_roundtrip","path":"x.audit.json"}
//	{"op":"tempdir", ...}   (see handlers)
package main

import (
	"bufio"
	"encoding/json"
	"fmt"
	"io/ioutil"
	"os"

	sp "github.com/scipipe/scipipe"
)

type req map[string]interface{}

func main() {
	sp.InitLogError()
	in := bufio.NewScanner(os.Stdin)
	in.Buffer(make([]byte, 1<<20), 1<<26)
	out := bufio.NewWriter(os.Stdout)
	defer out.Flush()
	for in.Scan() {
		var r req
		if err := json.Unmarshal(in.Bytes(), &r); err != nil {
			fmt.Fprintln(out, `{"error":"bad request"}`)
			continue
		}
		var ans interface{}
		switch r["op"] {
		case "audit_roundtrip":
			ans = auditRoundtrip(r["path"].(string))
		default:
			h, ok := handlers[fmt.Sprint(r["op"])]
			if !ok {
				ans = map[string]string{"error": "unknown op"}
			} else {
				ans = h(r)
			}
		}
		b, _ := json.Marshal(ans)
		out.Write(b)
		out.WriteByte('\n')
		out.Flush()
	}
}

var handlers = map[string]func(req) interface{}{}

// auditRoundtrip: Load(Write(r)) = r : read the file with scipipe, marshal it the way scipipe does, compare.
func auditRoundtrip(path string) interface{} {
	orig, err := ioutil.ReadFile(path)
	if err != nil {
		return map[string]interface{}{"error": err.Error()}
	}
	ai := sp.UnmarshalAuditInfoJSONFile(path)
	again, err := json.MarshalIndent(ai, "", "    ")
	if err != nil {
		return map[string]interface{}{"error": err.Error()}
	}
	var a, b interface{}
	json.Unmarshal(orig, &a)
	json.Unmarshal(again, &b)
	ja, _ := json.Marshal(a)
	jb, _ := json.Marshal(b)
	return map[string]interface{}{"same_bytes": string(orig) == string(again), "same_json": string(ja) == string(jb)}
}
