package main

import (
	sp "github.com/scipipe/scipipe"
)

func strmap(v interface{}) map[string]string {
	out := map[string]string{}
	if m, ok := v.(map[string]interface{}); ok {
		for k, x := range m {
			out[k], _ = x.(string)
		}
	}
	return out
}

func init() {
	// {"op":"tempdir","name":"p","ins":{"x":"a/b"},"params":{"k":"1"},"tags":{"x.g":"1"}} -> {"dir":"..."}
	handlers["tempdir"] = func(r req) interface{} {
		name, _ := r["name"].(string)
		inIPs := map[string]*sp.FileIP{}
		for port, path := range strmap(r["ins"]) {
			ip, err := sp.NewFileIP(path)
			if err != nil {
				return map[string]interface{}{"error": err.Error()}
			}
			inIPs[port] = ip
		}
		t := sp.NewTask(nil, nil, name, "", inIPs, nil, map[string]*sp.PortInfo{}, strmap(r["params"]), strmap(r["tags"]), "", nil, 1)
		return map[string]interface{}{"dir": t.TempDir()}
	}
}
