package main

import (
	"fmt"
	sp "github.com/scipipe/scipipe"
	"os"
)

func strmap(v interface{}) map[string]string {
	out := map[string]string{}
	if m, ok := v.(map[string]interface{}); ok {
		for k, x := range m {
			out[k], _ = x.(string)
		}
	}
	return out
}

var carrierNo int

func init() {
	// {"op":"tempdir","name":"p","ins":{"x":"a/b"},"params":{"k":"1"},"tags":{"x.g":"1"}} -> {"dir":"..."}
	handlers["tempdir"] = func(r req) interface{} {
		name, _ := r["name"].(string)
		inIPs := map[string]*sp.FileIP{}
		for port, path := range strmap(r["ins"]) {
			ip, err := sp.NewFileIP(path)
			if err != nil {
				return map[string]interface{}{"error": err.Error()}
			}
			inIPs[port] = ip
		}
		subs, _ := r["subs"].(map[string]interface{})
		if len(subs) > 0 {
			// joined in-ports: the task receives a carrier IP (random temp name) whose sub-stream holds the member files
			carrierNo++
			wf := sp.NewWorkflowCustomLogFile(fmt.Sprintf("probetd%d", carrierNo), 1, "/dev/null")
			cmd := "echo"
			for port := range inIPs {
				cmd += " {i:" + port + "}"
			}
			for port := range subs {
				cmd += " {i:" + port + "|join: }"
			}
			p := wf.NewProc(name, cmd+" > {o:out}")
			for port, lst := range subs {
				carrier, err := sp.NewFileIP(fmt.Sprintf("/tmp/_scipipe_tmp.%d%d", os.Getpid(), carrierNo))
				if err != nil {
					return map[string]interface{}{"error": err.Error()}
				}
				for _, x := range lst.([]interface{}) {
					ip, err := sp.NewFileIP(fmt.Sprint(x))
					if err != nil {
						return map[string]interface{}{"error": err.Error()}
					}
					carrier.SubStream.Chan <- ip
				}
				close(carrier.SubStream.Chan)
				inIPs[port] = carrier
				carrierNo++
			}
			t := sp.NewTask(wf, p, p.Name(), p.CommandPattern, inIPs, p.PathFuncs, p.PortInfo, strmap(r["params"]), strmap(r["tags"]), "", nil, 1)
			return map[string]interface{}{"dir": t.TempDir()}
		}
		t := sp.NewTask(nil, nil, name, "", inIPs, nil, map[string]*sp.PortInfo{}, strmap(r["params"]), strmap(r["tags"]), "", nil, 1)
		return map[string]interface{}{"dir": t.TempDir()}
	}
}
