package main

import (
	"fmt"

	sp "github.com/scipipe/scipipe"
)

var wfCounter = 0

func init() {
	// {"op":"expand","cmd":"echo {i:in|basename} > {o:out}","outs":{"out":"res/{i:in}.txt"},"ins":{"in":"d/f.txt"},
	//  "params":{..},"tags":{..},"proc":"name"} -> {"command":..., "outs":{port:path}}
	// A missing value makes scipipe call os.Exit(1): the harness runs such requests in their own process.
	handlers["expand"] = func(r req) interface{} {
		wfCounter++
		wf := sp.NewWorkflowCustomLogFile(fmt.Sprintf("probe%d", wfCounter), 1, "/dev/null")
		name, _ := r["proc"].(string)
		if name == "" {
			name = "p"
		}
		cmd, _ := r["cmd"].(string)
		p := wf.NewProc(name, cmd)
		for port, pat := range strmap(r["outs"]) {
			p.SetOut(port, pat)
		}
		inIPs := map[string]*sp.FileIP{}
		for port, path := range strmap(r["ins"]) {
			ip, err := sp.NewFileIP(path)
			if err != nil {
				return map[string]interface{}{"error": err.Error()}
			}
			inIPs[port] = ip
		}
		t := sp.NewTask(wf, p, p.Name(), p.CommandPattern, inIPs, p.PathFuncs, p.PortInfo, strmap(r["params"]), strmap(r["tags"]), p.Prepend, nil, 1)
		outs := map[string]string{}
		for k, ip := range t.OutIPs {
			outs[k] = ip.Path()
		}
		return map[string]interface{}{"command": t.Command, "outs": outs}
	}
}
