// wfdriver builds a scipipe workflow from a wfspec JSON file and runs it.
// It is rebuilt from /repo's working tree (with -tags verif) on every check.
//
// usage: wfdriver <wfspec.json>
//
// Conventions (shared with spec/Flow.tla, see DESIGN.md Appendix C):
//
//	source item id X        -> file in/X.txt
//	output of a cmd process -> o/<proc>.<port>_<sig>.txt
//	sig = ids of the inputs (ports sorted by name) joined by "-", then, if the
//	      process has params, "_" + values (param names sorted) joined by "-"
//
// After Run/RunTo returns the driver writes return_snapshot.json (directory
// listing taken inside the program) and prints WFDRIVER_COMPLETED.
package main

import (
	"encoding/json"
	"fmt"
	"io"
	"io/ioutil"
	"os"
	"path/filepath"
	"sort"
	"strconv"
	"strings"
	"time"

	sp "github.com/scipipe/scipipe"
	"github.com/scipipe/scipipe/components"
)

type Proc struct {
	Name         string            `json:"name"`
	Kind         string            `json:"kind"` // src | psrc | cmd | gofunc | maptotags | substream | concat | splitter | fcomb | pcomb | selector | globber | f2p | c2p
	Items        []string          `json:"items"`
	Values       []string          `json:"values"`
	Ins          []string          `json:"ins"`
	Params       []string          `json:"params"`
	Outs         []string          `json:"outs"`
	Streams      []string          `json:"streams"` // out-ports that stream ({os:..})
	Joins        map[string]string `json:"joins"`   // in-port -> separator
	Cores        int               `json:"cores"`
	Prepend      string            `json:"prepend"`
	Suffix       string            `json:"suffix"`       // appended to the standard command pattern, e.g. "&& true"
	DefaultNames bool              `json:"defaultnames"` // no SetOut: scipipe's default output names (in the working directory)
	Arg          string            `json:"arg"`          // kind specific (path, pattern, lines per split, ...)
	OutDir       string            `json:"outdir"`       // directory prefix of outputs (default "o/")
	Tags         map[string]string `json:"tags"`         // maptotags: tags to add (value may contain %id)
	Paths        []string          `json:"paths"`        // src: explicit file paths (instead of items)
	OutPaths     map[string]string `json:"outpaths"`     // cmd: explicit output path patterns by port (instead of the naming scheme)
}

type Edge struct {
	From  string `json:"from"`
	To    string `json:"to"`
	UseTo bool   `json:"useto"` // connect with OutPort.To(in-port) instead of InPort.From(out-port)
}

type Feed struct {
	To     string   `json:"to"`
	Values []string `json:"values"`
}

type Spec struct {
	Name     string   `json:"name"`
	Max      int      `json:"max"`
	Bufsize  int      `json:"bufsize"`
	Procs    []Proc   `json:"procs"`
	Edges    []Edge   `json:"edges"`
	PEdges   []Edge   `json:"pedges"`
	Feeds    []Feed   `json:"feeds"`
	Mode     string   `json:"mode"`
	Targets  []string `json:"targets"`
	Patterns []string `json:"patterns"` // runtoregex: the regular expressions (targets = the names they resolve to)
	DebugLog bool     `json:"debuglog"` // log level DEBUG (into wf.log)
}

func die(f string, a ...interface{}) {
	fmt.Fprintf(os.Stderr, "wfdriver: "+f+"\n", a...)
	os.Exit(2)
}

func split2(s string) (string, string) {
	s = strings.TrimSuffix(s, ">") // out-ports of pcomb processes are written "proc.port>" in the wfspec
	i := strings.LastIndex(s, ".")
	if i < 0 {
		die("bad port reference %q", s)
	}
	return s[:i], s[i+1:]
}

func contains(xs []string, x string) bool {
	for _, y := range xs {
		if y == x {
			return true
		}
	}
	return false
}

// sigPattern returns the placeholder expression computing a task's sig.
func sigPattern(p Proc) string {
	ins := append([]string{}, p.Ins...)
	sort.Strings(ins)
	parts := []string{}
	for _, in := range ins {
		if _, ok := p.Joins[in]; ok {
			continue // joined ports do not contribute (carrier path is random)
		}
		parts = append(parts, "{i:"+in+"|basename|%.txt}")
	}
	sig := strings.Join(parts, "-")
	ps := append([]string{}, p.Params...)
	sort.Strings(ps)
	if len(ps) > 0 {
		vals := []string{}
		for _, q := range ps {
			vals = append(vals, "{p:"+q+"}")
		}
		sig += "_" + strings.Join(vals, "-")
	}
	return sig
}

func main() {
	if len(os.Args) < 2 {
		die("usage: wfdriver <wfspec.json>")
	}
	raw, err := ioutil.ReadFile(os.Args[1])
	if err != nil {
		die("%v", err)
	}
	var spec Spec
	if err := json.Unmarshal(raw, &spec); err != nil {
		die("bad wfspec: %v", err)
	}
	// audit and warning logs go to wf.log, errors to stderr (the harness can delay reading stderr, which
	// blocks a goroutine inside Fail while it reports - other log levels are not affected)
	logf, lerr := os.Create("wf.log")
	if lerr != nil {
		die("%v", lerr)
	}
	var debugW io.Writer = ioutil.Discard
	if spec.DebugLog {
		debugW = logf
	}
	sp.InitLog(ioutil.Discard, debugW, ioutil.Discard, logf, logf, os.Stderr)
	wf := sp.NewWorkflowCustomLogFile(spec.Name, spec.Max, "wf2.log")

	type portOwner interface {
		OutPort(string) *sp.OutPort
		InPort(string) *sp.InPort
		OutParamPort(string) *sp.OutParamPort
		InParamPort(string) *sp.InParamPort
	}
	procs := map[string]sp.WorkflowProcess{}
	owners := map[string]portOwner{}
	cmdProcs := map[string]*sp.Process{}

	for _, p := range spec.Procs {
		p := p
		outdir := p.OutDir
		if outdir == "" {
			outdir = "o/"
		}
		// $PWD / $PWDNAME let an instance declare absolute or ../-relative output
		// paths that still end up in <workdir>/o/
		if wd, err := os.Getwd(); err == nil {
			outdir = strings.Replace(outdir, "$PWDNAME", filepath.Base(wd), -1)
			outdir = strings.Replace(outdir, "$PWD", wd, -1)
		}
		switch p.Kind {
		case "src":
			paths := []string{}
			for _, it := range p.Items {
				paths = append(paths, "in/"+it+".txt")
			}
			paths = append(paths, p.Paths...)
			c := components.NewFileSource(wf, p.Name, paths...)
			procs[p.Name], owners[p.Name] = c, c
		case "psrc":
			c := components.NewParamSource(wf, p.Name, p.Values...)
			procs[p.Name], owners[p.Name] = c, c
		case "cmd", "gofunc", "gofunc_ipwrite":
			ins := append([]string{}, p.Ins...)
			sort.Strings(ins)
			ps := append([]string{}, p.Params...)
			sort.Strings(ps)
			sig := sigPattern(p)
			pat := "bash $VERIF_HELPER " + p.Name + " " + sig
			if sig == "" {
				pat = "bash $VERIF_HELPER " + p.Name + " ''"
			}
			pat += " -o"
			for _, o := range p.Outs {
				if contains(p.Streams, o) {
					pat += " {os:" + o + "}"
				} else {
					pat += " {o:" + o + "}"
				}
			}
			pat += " -i"
			for _, in := range ins {
				if sep, ok := p.Joins[in]; ok {
					pat += " {i:" + in + "|join:" + sep + "}"
				} else {
					pat += " {i:" + in + "}"
				}
			}
			pat += " -p"
			for _, q := range ps {
				pat += " " + q + "={p:" + q + "}"
			}
			if p.Suffix != "" {
				pat += " " + p.Suffix
			}
			if p.Arg != "" {
				pat = p.Arg // explicit command pattern
			}
			proc := wf.NewProc(p.Name, pat)
			for _, q := range p.Params {
				// a parameter the command pattern does not mention (it is only used in an output path pattern)
				if !strings.Contains(pat, "{p:"+q) {
					proc.InitInParamPort(proc, q)
				}
			}
			for _, o := range p.Outs {
				// an out-port the command pattern does not mention (the tool chooses its own file name, the path is declared with SetOut only)
				if !strings.Contains(pat, "{o:"+o) && !strings.Contains(pat, "{os:"+o) {
					proc.InitOutPort(proc, o)
				}
			}
			for _, o := range p.Outs {
				if p.DefaultNames {
					continue
				}
				if pat, ok := p.OutPaths[o]; ok {
					proc.SetOut(o, pat)
				} else {
					proc.SetOut(o, outdir+p.Name+"."+o+"_"+sig+".txt")
				}
			}
			if p.Cores > 0 {
				proc.CoresPerTask = p.Cores
			}
			proc.Prepend = p.Prepend
			if p.Kind == "gofunc" {
				proc.CustomExecute = func(t *sp.Task) { goFuncTask(t, p) }
			}
			if p.Kind == "gofunc_ipwrite" {
				// the documented way (examples/custom_execution_function): task.OutIP(port).Write(data)
				proc.CustomExecute = func(t *sp.Task) {
					for _, o := range p.Outs {
						id := strings.TrimSuffix(filepath.Base(t.OutIP(o).Path()), ".txt")
						t.OutIP(o).Write([]byte("BEGIN " + id + "\nEND " + id + "\n"))
					}
				}
			}
			procs[p.Name], owners[p.Name] = proc, proc
			cmdProcs[p.Name] = proc
		case "maptotags":
			c := components.NewMapToTags(wf, p.Name, func(ip *sp.FileIP) map[string]string {
				id := strings.TrimSuffix(filepath.Base(ip.Path()), ".txt")
				m := map[string]string{}
				for k, v := range p.Tags {
					m[k] = strings.Replace(v, "%id", id, -1)
				}
				return m
			})
			procs[p.Name], owners[p.Name] = c, c
		case "pcomb":
			c := components.NewParamCombinator(wf, p.Name)
			for _, q := range p.Params {
				c.InParam(q)
			}
			procs[p.Name], owners[p.Name] = c, c
		case "fcomb":
			c := components.NewFileCombinator(wf, p.Name)
			for _, q := range p.Ins {
				c.In(q)
			}
			procs[p.Name], owners[p.Name] = c, c
		case "substream":
			c := components.NewStreamToSubStream(wf, p.Name)
			procs[p.Name], owners[p.Name] = c, c
		case "concat":
			c := components.NewConcatenator(wf, p.Name, p.Arg)
			procs[p.Name], owners[p.Name] = c, c
		case "splitter": // ports: file -> split_file; Arg = lines per part (default 1)
			n, err := strconv.Atoi(p.Arg)
			if err != nil || n < 1 {
				n = 1
			}
			c := components.NewFileSplitter(wf, p.Name, n)
			procs[p.Name], owners[p.Name] = c, c
		default:
			die("unknown kind %q", p.Kind)
		}
	}
	for _, e := range spec.Edges {
		fp, fport := split2(e.From)
		tp, tport := split2(e.To)
		if e.UseTo {
			owners[fp].OutPort(fport).To(owners[tp].InPort(tport))
		} else {
			owners[tp].InPort(tport).From(owners[fp].OutPort(fport))
		}
	}
	for _, e := range spec.PEdges {
		fp, fport := split2(e.From)
		tp, tport := split2(e.To)
		owners[tp].InParamPort(tport).From(owners[fp].OutParamPort(fport))
	}
	for _, f := range spec.Feeds {
		tp, tport := split2(f.To)
		owners[tp].InParamPort(tport).FromStr(f.Values...)
	}

	switch spec.Mode {
	case "", "run":
		wf.Run()
	case "runto":
		wf.RunTo(spec.Targets...)
	case "runtoregex":
		wf.RunToRegex(spec.Patterns...)
	case "runtoprocs":
		ps := []sp.WorkflowProcess{}
		for _, t := range spec.Targets {
			ps = append(ps, procs[t])
		}
		wf.RunToProcs(ps...)
	default:
		die("unknown mode %q", spec.Mode)
	}
	writeSnapshot("return_snapshot.json")
	fmt.Println("WFDRIVER_COMPLETED")
}

// writeSnapshot lists the working directory from inside the program (taken
// immediately after Run returned).
func writeSnapshot(out string) {
	type ent struct {
		Path string `json:"path"`
		Kind string `json:"kind"`
		Size int64  `json:"size"`
	}
	ents := []ent{}
	filepath.Walk(".", func(path string, fi os.FileInfo, err error) error {
		if err != nil || path == "." {
			return nil
		}
		kind := "file"
		if fi.IsDir() {
			kind = "dir"
		} else if fi.Mode()&os.ModeNamedPipe != 0 {
			kind = "fifo"
		}
		ents = append(ents, ent{path, kind, fi.Size()})
		return nil
	})
	b, _ := json.Marshal(ents)
	ioutil.WriteFile(out, b, 0644)
}

// goFuncTask is the CustomExecute body of "gofunc" processes: same content as
// the shell helper, written inside the task's temp dir via the public API.
func goFuncTask(t *sp.Task, p Proc) {
	ins := []string{}
	for k := range t.InIPs {
		ins = append(ins, k)
	}
	sort.Strings(ins)
	ids := []string{}
	for _, k := range ins {
		ids = append(ids, strings.TrimSuffix(filepath.Base(t.InPath(k)), ".txt"))
	}
	sig := strings.Join(ids, "-")
	ps := []string{}
	for k := range t.Params {
		ps = append(ps, k)
	}
	sort.Strings(ps)
	if len(ps) > 0 {
		vals := []string{}
		for _, k := range ps {
			vals = append(vals, t.Param(k))
		}
		sig += "_" + strings.Join(vals, "-")
	}
	key := p.Name + ":" + sig
	logf := func(tag string) {
		if f := os.Getenv("VERIF_CMDLOG"); f != "" {
			fh, err := os.OpenFile(f, os.O_APPEND|os.O_CREATE|os.O_WRONLY, 0644)
			if err == nil {
				now := time.Now()
				fmt.Fprintf(fh, "%s %d.%06d %d %s\n", tag, now.Unix(), now.Nanosecond()/1000, os.Getpid(), key)
				fh.Close()
			}
		}
	}
	logf("S")
	fault := ""
	if ctl := os.Getenv("VERIF_CTL"); ctl != "" {
		if b, err := ioutil.ReadFile(filepath.Join(ctl, key+".fault")); err == nil {
			fault = strings.TrimSpace(string(b))
		}
	}
	if fault == "exit_before_write" {
		sp.Failf("gofunc %s: injected failure before any write", key)
	}
	outs := []string{}
	for k := range t.OutIPs {
		outs = append(outs, k)
	}
	sort.Strings(outs)
	for i, o := range outs {
		if fault == "skip_output" && i == len(outs)-1 {
			continue
		}
		oip := t.OutIP(o)
		id := strings.TrimSuffix(filepath.Base(oip.Path()), ".txt")
		var sb strings.Builder
		sb.WriteString("BEGIN " + id + "\n")
		for _, k := range ins {
			b, err := ioutil.ReadFile(t.InPath(k))
			if err != nil {
				sp.Failf("gofunc %s: cannot read input %s", key, t.InPath(k))
			}
			sb.Write(b)
		}
		for _, k := range ps {
			sb.WriteString("P " + k + "=" + t.Param(k) + "\n")
		}
		path := filepath.Join(t.TempDir(), oip.TempPath())
		os.MkdirAll(filepath.Dir(path), 0777)
		if err := ioutil.WriteFile(path, []byte(sb.String()), 0644); err != nil {
			sp.Failf("gofunc %s: %v", key, err)
		}
		if i == 0 {
			logf("M")
			if ctl := os.Getenv("VERIF_CTL"); ctl != "" { // ctl "<key>.sleep" / "<proc>.sleep" / "ALL.sleep": seconds
				for _, f := range []string{key + ".sleep", p.Name + ".sleep", "ALL.sleep"} {
					if b, err := ioutil.ReadFile(filepath.Join(ctl, f)); err == nil {
						if secs, err := strconv.ParseFloat(strings.TrimSpace(string(b)), 64); err == nil {
							time.Sleep(time.Duration(secs * float64(time.Second)))
						}
						break
					}
				}
			}
			if fault == "exit_after_partial" {
				sp.Failf("gofunc %s: injected failure after partial write", key)
			}
			if fault == "panic_after_partial" { // the custom function crashes with a non-error panic value
				panic("gofunc " + key + ": injected panic after partial write")
			}
		}
		fh, _ := os.OpenFile(path, os.O_APPEND|os.O_WRONLY, 0644)
		fh.WriteString("END " + id + "\n")
		fh.Close()
	}
	if fault == "exit_after_all" {
		sp.Failf("gofunc %s: injected failure after all writes", key)
	}
	logf("E")
}
