module verifharness

go 1.21

require github.com/scipipe/scipipe v0.0.0

replace github.com/scipipe/scipipe => /repo
