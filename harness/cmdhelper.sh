#!/bin/bash
# Standard task command of the verification harness.
#   cmdhelper.sh <proc> <sig> -o <out>... -i <in>... -p <k=v>...
# Writes, for every output, "BEGIN <id>" + contents of all inputs + "P k=v" lines,
# then (phase "mid": sleep / gate / rendezvous / fault), then "END <id>".
# Own start/end lines go to $VERIF_CMDLOG ("S|M|E <epoch> <pid> <proc:sig>").
proc=$1; sig=$2; shift 2
sig=${sig//.txt.fifo/}     # an input read through a FIFO is named like the file it stands for
outs=(); ins=(); params=(); mode=""
for a in "$@"; do
  case "$a" in
    -o|-i|-p) mode=$a ;;
    *) case "$mode" in -o) outs+=("$a");; -i) ins+=("$a");; -p) params+=("$a");; esac ;;
  esac
done
key="$proc:$sig"
ctl=${VERIF_CTL:-/nonexistent}
log(){ [ -n "$VERIF_CMDLOG" ] && echo "$1 $EPOCHREALTIME $$ $key" >> "$VERIF_CMDLOG"; }
d1=""; [ ${#ins[@]} -gt 0 ] && d1=$(basename "$(dirname "${ins[0]}")")     # tasks with equally named inputs in different directories
ctlval(){ cat "$ctl/$key@$d1.$1" 2>/dev/null || cat "$ctl/$key.$1" 2>/dev/null || cat "$ctl/$proc.$1" 2>/dev/null || cat "$ctl/ALL.$1" 2>/dev/null; }
log S
# what bash was really asked to execute for this task (independent of what scipipe recorded)
[ -n "$VERIF_CMDLOG" ] && echo "C 0 $$ $key $(tr '\0' ' ' < /proc/$PPID/cmdline | base64 -w0)" >> "$VERIF_CMDLOG"
fault=$(ctlval fault)
[ "$fault" = exit_before_write ] && exit 3
nouts=${#outs[@]}
k=0
for o in "${outs[@]}"; do
  k=$((k+1))
  id=$(basename "$o"); id=${id%.fifo}; id=${id%.txt}
  if [ "$fault" = skip_output ] && [ $k -eq $nouts ]; then continue; fi
  # the last output is "produced" as a symbolic link to a file that does not exist
  if [ "$fault" = dangling_link ] && [ $k -eq $nouts ]; then ln -s /nonexistent/verif_target "$o"; continue; fi
  # one open() per output (a FIFO would see EOF in between otherwise)
  emit() {
    echo "BEGIN $id"; for i in "${ins[@]}"; do cat "$i" || exit 4; done; for p in "${params[@]}"; do echo "P $p"; done
    if [ $k -eq 1 ]; then
      log M
      s=$(ctlval sleep); [ -n "$s" ] && sleep "$s"
      rv=$(ctlval rendezvous)
      if [ -n "$rv" ]; then
        mkdir -p "$ctl/arrived.$rv"; touch "$ctl/arrived.$rv/$key"
        need=$(cat "$ctl/rendezvous.$rv.n"); t=0
        while [ "$(ls "$ctl/arrived.$rv" | wc -l)" -lt "$need" ]; do sleep 0.02; t=$((t+1)); [ $t -gt 500 ] && { log T; exit 7; }; done
      fi
      g=$(ctlval gate)
      if [ -n "$g" ]; then t=0; while [ ! -e "$ctl/$g" ]; do sleep 0.01; t=$((t+1)); [ $t -gt 3000 ] && { log T; exit 7; }; done; fi
      [ "$fault" = exit_after_partial ] && exit 3
      [ "$fault" = sigkill_self ] && kill -9 $$
      [ "$fault" = sigterm_self ] && kill -TERM $$      # the task's shell then reports exit status 143
      [ "$fault" = sigint_self ] && kill -INT $$        # ... 130
      if [ "$fault" = sigkill_shell ]; then kill -9 $PPID; exit 3; fi   # the bash -c process itself dies by a signal
    fi
    pad=$(ctlval pad); if [ -n "$pad" ] && [ "$pad" -gt 0 ]; then head -c "$pad" /dev/zero | tr '\0' 'x'; echo; fi
    echo "END $id"
  }
  # ctl "append": a command that appends to its output (>>) instead of truncating it
  if [ -n "$(ctlval append)" ]; then emit >> "$o" || exit 4; else emit > "$o" || exit 4; fi
done
x=$(ctlval extra)
if [ -n "$x" ]; then for f in $x; do f=${f//%k/$sig}; mkdir -p "$(dirname "$f")"; echo "EXTRA $key $f" > "$f"; done; fi
[ "$fault" = exit_after_all ] && exit 3
if [ "$fault" = exit_after_all_noisy ]; then head -c 200000 /dev/zero | tr '\0' 'x'; echo; exit 3; fi
if [ "$fault" = sigkill_after_all ]; then kill -9 $$; fi
ps=$(ctlval postsleep); [ -n "$ps" ] && sleep "$ps"     # keep running after all outputs (pipes) are closed
log E
exit 0
